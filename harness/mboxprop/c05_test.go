package mboxprop

import (
	"bytes"
	"context"
	"fmt"
	"net"
	"strings"
	"sync"
	"testing"
	"time"

	"github.com/btcsuite/btcd/btcec/v2"
	"github.com/lightninglabs/lightning-node-connect/mailbox"
	"pgregory.net/rapid"

	"verif/harness/relay"
	"verif/harness/stats"
	"verif/harness/vnet"
)

type c05Case struct {
	Seed     uint64           `json:"seed"`
	KK       bool             `json:"kk"`
	AuthLen  int              `json:"auth_len"`
	C2S      []int            `json:"c2s"` // write sizes client -> server
	S2C      []int            `json:"s2c"`
	FaultC2S []relay.Decision `json:"fault_c2s,omitempty"` // relay messages on the client->server stream
	FaultS2C []relay.Decision `json:"fault_s2c,omitempty"`
	LatMs    int              `json:"lat_ms"`
	// Bufs: read-buffer sizes used by both readers, cycled (empty: 70000).
	Bufs []int `json:"bufs,omitempty"`
	// ArmAfter: faults start after the Noise handshake (true) or right after
	// the GBN handshake (false).
	ArmAfter bool `json:"arm_after_noise"`
}

type c05Outcome struct {
	violation  string
	labels     []string
	nontrivial bool
	events     []string
	// deadPeerFullWindow: the recorded GBN finding as it shows at this
	// layer: one side has failed and gone, the other sees no error and has
	// spent the last 100 virtual seconds retransmitting a full window (20
	// distinct DATA sequence numbers, no keepalive ping among them) to
	// nobody.
	deadPeerFullWindow bool
}

// fullWindowLoop evaluates the predicate of the recorded finding
// gbn-dead-peer-full-window-c05 on the relay's event log.
func fullWindowLoop(events []relay.Event, now time.Duration, blocked, gone string) (bool, string) {
	since := now - 100*time.Second
	// the last packet the relay handed to the blocked side: whatever ping of
	// its own was on the wire before that moment has had its pong timer
	// paused by it
	var lastRecv time.Duration = -1
	firstSend := map[string]time.Duration{} // head -> first time the blocked side sent it
	for _, e := range events {
		if e.Who != blocked {
			continue
		}
		if e.Op == "recv" && e.T > lastRecv {
			lastRecv = e.T
		}
		if e.Op == "send" {
			if _, ok := firstSend[e.Head]; !ok {
				firstSend[e.Head] = e.T
			}
		}
	}
	seqs := map[string]bool{}
	n, other, armedPings, pausedPings, nonData := 0, 0, 0, 0, 0
	seenPing := map[string]bool{}
	for _, e := range events {
		if e.Op != "send" || e.T < since {
			continue
		}
		if e.Who == gone {
			other++ // the peer still transmits: not a dead peer
			continue
		}
		if e.Who != blocked {
			continue
		}
		n++
		h := e.Head
		// DATA packet: type 02, seq, final flag, ping flag
		if len(h) < 8 || h[:2] != "02" {
			nonData++ // it sends something else than DATA
			continue
		}
		seqs[h[2:4]] = true
		if h[6:8] == "01" && !seenPing[h] {
			seenPing[h] = true
			if firstSend[h] <= lastRecv {
				// sent before the last packet from the peer arrived: that
				// packet paused its pong timer, the ping is just one more
				// unacknowledged packet in the window
				pausedPings++
			} else {
				armedPings++ // pong timer armed and never served: not this finding
			}
		}
	}
	why := fmt.Sprintf("last 100s: %s sent %d packets (%d distinct seqs, %d pings whose pong timer a later packet had paused, %d pings with the pong timer armed, %d non-DATA), %s sent %d",
		blocked, n, len(seqs), pausedPings, armedPings, nonData, gone, other)
	return other == 0 && armedPings == 0 && nonData == 0 && n >= 20 && len(seqs) == 20, why
}

type e2eSide struct {
	conn    net.Conn
	wrote   [][]byte // payloads whose Write returned nil
	offered [][]byte
	werr    error
	read    []byte
	rerr    error
	rerrAt  time.Duration
	werrAt  time.Duration
}

func runC05(t *testing.T, c *c05Case) (out c05Outcome) {
	bo := vnet.InBubble(t, 180*time.Second, func() {
		start := time.Now()
		r := relay.New(ms(c.LatMs))
		sid := sidFromSeed(c.Seed)
		c2sID, s2cID := mailbox.GetSID(sid, false), mailbox.GetSID(sid, true)
		r.SetScript(c2sID[:], c.FaultC2S)
		r.SetScript(s2cID[:], c.FaultS2C)
		mp, err := newMailboxPairOn(r, c.Seed)
		if err != nil {
			out.violation = "setup: " + err.Error()
			return
		}
		defer mp.Close()
		if !c.ArmAfter {
			r.Arm(true)
		}
		// Noise on top
		cli, srv := ecdhKey(c.Seed, "cli"), ecdhKey(c.Seed, "srv")
		pass := entropy(c.Seed, "pass", 14)
		auth := entropy(c.Seed, "auth", c.AuthLen)
		var cRemote, sRemote *btcec.PublicKey
		if c.KK {
			cRemote, sRemote = srv.PubKey(), cli.PubKey()
		}
		cdC := mailbox.NewConnData(cli, cRemote, pass, nil, nil, nil)
		cdS := mailbox.NewConnData(srv, sRemote, pass, auth, nil, nil)
		nc, ns := mailbox.NewNoiseGrpcConn(cdC), mailbox.NewNoiseGrpcConn(cdS)
		var (
			hwg        sync.WaitGroup
			cc, sc     net.Conn
			cerr, serr error
		)
		hwg.Add(2)
		go func() {
			defer hwg.Done()
			cc, _, cerr = nc.ClientHandshake(context.Background(), "", mp.C)
		}()
		go func() {
			defer hwg.Done()
			sc, _, serr = ns.ServerHandshake(mp.S)
		}()
		hwg.Wait()
		msgs0, _ := r.Snapshot()
		_ = msgs0
		if cerr != nil || serr != nil {
			// A handshake that fails under relay faults is a visible failure
			// if both sides fail (the read deadline is 5s); with no fault
			// applied it is a violation.
			if c.ArmAfter || (len(c.FaultC2S) == 0 && len(c.FaultS2C) == 0) {
				out.violation = fmt.Sprintf("Noise handshake failed on a fault-free relay: client %v, server %v", cerr, serr)
				return
			}
			if cerr == nil || serr == nil {
				// one side completed, the other failed: the completed side
				// must fail visibly soon (its peer closes the conn)
				out.labels = append(out.labels, "handshake_failed_one_side")
			}
			out.labels = append(out.labels, "handshake_failed_under_faults")
			if cc != nil {
				_ = cc.Close()
			}
			if sc != nil {
				_ = sc.Close()
			}
			return
		}
		if !bytes.Equal(cdC.AuthData(), auth) {
			out.violation = "client received a different auth payload"
			return
		}
		if c.ArmAfter {
			r.Arm(true)
		}
		sides := [2]*e2eSide{{conn: cc}, {conn: sc}}
		for i, l := range c.C2S {
			sides[0].offered = append(sides[0].offered, entropy(c.Seed, fmt.Sprintf("c2s/%d", i), l))
		}
		for i, l := range c.S2C {
			sides[1].offered = append(sides[1].offered, entropy(c.Seed, fmt.Sprintf("s2c/%d", i), l))
		}
		var mu sync.Mutex
		var wg sync.WaitGroup
		changed := make(chan struct{}, 1)
		note := func() {
			select {
			case changed <- struct{}{}:
			default:
			}
		}
		for i := 0; i < 2; i++ {
			s, peerTotal := sides[i], 0
			for _, p := range sides[1-i].offered {
				peerTotal += len(p)
			}
			wg.Add(2)
			go func() { // writer
				defer wg.Done()
				for _, p := range s.offered {
					n, err := safeConnWrite(s.conn, p)
					mu.Lock()
					if err != nil || n != len(p) {
						if err == nil {
							err = fmt.Errorf("short write %d of %d", n, len(p))
						}
						s.werr, s.werrAt = err, time.Since(start)
						mu.Unlock()
						note()
						return
					}
					s.wrote = append(s.wrote, p)
					mu.Unlock()
					note()
				}
			}()
			go func() { // reader
				defer wg.Done()
				big := make([]byte, 70000)
				got, bi := 0, 0
				for got < peerTotal {
					buf := big
					if len(c.Bufs) > 0 {
						buf = big[:c.Bufs[bi%len(c.Bufs)]]
						bi++
					}
					n, err := safeConnRead(s.conn, buf)
					mu.Lock()
					s.read = append(s.read, buf[:n]...)
					got += n
					if err != nil {
						s.rerr, s.rerrAt = err, time.Since(start)
						mu.Unlock()
						note()
						return
					}
					mu.Unlock()
					note()
				}
			}()
		}
		done := make(chan struct{})
		go func() { wg.Wait(); close(done) }()

		// progress: wait until done, or until 300 virtual seconds after the
		// faults ceased
		var faultEnd time.Time
		finished := false
		for !finished {
			select {
			case <-done:
				finished = true
			case <-changed:
			case <-time.After(5 * time.Second):
			}
			if faultEnd.IsZero() && !r.FaultsLeft() {
				faultEnd = time.Now()
			}
			if !faultEnd.IsZero() && time.Since(faultEnd) > 300*time.Second {
				break
			}
			if time.Since(start) > 2*time.Hour {
				break
			}
		}
		mu.Lock()
		// safety: prefix
		for i := 0; i < 2; i++ {
			want := bytes.Join(sides[1-i].offered, nil)
			got := sides[i].read
			if len(got) > len(want) || !bytes.Equal(got, want[:len(got)]) {
				out.violation = fmt.Sprintf("%s read %d bytes that are not a prefix of the %d bytes its peer wrote",
					[]string{"client", "server"}[i], len(got), len(want))
			}
		}
		complete := true
		for i := 0; i < 2; i++ {
			if len(sides[i].read) != len(bytes.Join(sides[1-i].offered, nil)) {
				complete = false
			}
		}
		if out.violation == "" && !finished && !complete {
			// both sides must have observed an error
			var blocked []string
			for i, s := range sides {
				name := []string{"client", "server"}[i]
				if s.rerr == nil && s.werr == nil {
					blocked = append(blocked, fmt.Sprintf("%s sees no error (read %d bytes, wrote %d of %d records)", name, len(s.read), len(s.wrote), len(s.offered)))
				}
			}
			if len(blocked) > 0 {
				out.violation = "transfer neither completed nor failed visibly on both sides 300s after the relay faults ceased: " + strings.Join(blocked, "; ")
				if len(blocked) == 1 {
					names := []string{"client", "server"}
					bi := 0
					if sides[0].rerr != nil || sides[0].werr != nil {
						bi = 1
					}
					_, evs := r.Snapshot()
					var why string
					out.deadPeerFullWindow, why = fullWindowLoop(evs, relayNow(evs), names[bi], names[1-bi])
					out.violation += " [" + why + "]"
				}
			} else {
				out.labels = append(out.labels, "failed_visibly")
			}
		}
		if complete {
			out.labels = append(out.labels, "completed")
		}
		if out.violation == "" && !complete && len(c.FaultC2S)+len(c.FaultS2C) == 0 {
			// A relay that never dropped or delayed anything gives the
			// connection no reason to fail: the streams must arrive whole.
			var errs []string
			for i, s := range sides {
				errs = append(errs, fmt.Sprintf("%s: read %d bytes (err %v), wrote %d of %d records (err %v)",
					[]string{"client", "server"}[i], len(s.read), s.rerr, len(s.wrote), len(s.offered), s.werr))
			}
			out.violation = "the transfer did not complete on a relay that applied no fault at all: " + strings.Join(errs, "; ")
		}
		var plains [][]byte
		for _, s := range sides {
			plains = append(plains, s.offered...)
		}
		mu.Unlock()
		_ = cc.Close()
		_ = sc.Close()
		<-done
		// confidentiality: nothing the relay saw contains plaintext
		msgs, events := r.Snapshot()
		nfault := 0
		for _, e := range events {
			if e.Op == "send" && e.Note != "" {
				nfault++
			}
		}
		if nfault > 0 {
			out.labels = append(out.labels, "relay_fault_applied")
		}
		transferred := false
		for _, p := range plains {
			if len(p) >= 16 {
				transferred = true
			}
		}
		out.nontrivial = nfault > 0 && transferred
		if out.violation == "" {
			var needles [][]byte
			for _, p := range plains {
				if len(p) >= 16 {
					needles = append(needles, p[:16], p[len(p)/2 : len(p)/2+16][:min(16, len(p)-len(p)/2)])
				}
			}
			if len(auth) >= 16 {
				needles = append(needles, auth[:16])
			}
			for id, list := range msgs {
				for _, m := range list {
					for _, nd := range needles {
						if len(nd) == 16 && bytes.Contains(m, nd) {
							out.violation = fmt.Sprintf("a relay message on stream %x.. contains plaintext", id[:4])
						}
					}
				}
			}
		}
		if out.violation != "" {
			for _, e := range events {
				if len(out.events) < 60 {
					out.events = append(out.events, fmt.Sprintf("%v %s %x %s %d %s", e.T, e.Op, e.Stream[len(e.Stream)-2:], e.Who, e.Len, e.Note))
				}
			}
		}
	})
	if bo.Panic != "" && !bo.Deadlock && out.violation == "" {
		out.violation = "panic: " + bo.Panic
	}
	return
}

func genRelayScript(t *rapid.T, label string, maxLen int) []relay.Decision {
	drop := rapid.SampledFrom([]int{0, 5, 15, 40}).Draw(t, label+"_drop")
	delay := rapid.SampledFrom([]int{0, 0, 10, 30}).Draw(t, label+"_delay")
	if drop+delay == 0 {
		return nil
	}
	g := rapid.Custom(func(t *rapid.T) relay.Decision {
		x := rapid.IntRange(0, 99).Draw(t, "x")
		switch {
		case x < drop:
			return relay.Decision{Kind: "drop"}
		case x < drop+delay:
			return relay.Decision{Kind: "delay", DelayMs: rapid.SampledFrom([]int{1, 100, 999, 1000, 1001, 2500}).Draw(t, "ms")}
		}
		return relay.Decision{Kind: "deliver"}
	})
	return rapid.SliceOfN(g, 0, maxLen).Draw(t, label)
}

func genC05(t *rapid.T) *c05Case {
	c := &c05Case{Seed: rapid.Uint64().Draw(t, "seed"), KK: rapid.IntRange(0, 3).Draw(t, "kk") == 0}
	c.AuthLen = rapid.SampledFrom([]int{16, 200, 2000}).Draw(t, "auth")
	wg := rapid.OneOf(rapid.IntRange(1, 400), rapid.IntRange(1, 20000), rapid.SampledFrom([]int{32767, 32768, 32769, 65535}))
	c.C2S = rapid.SliceOfN(wg, 0, 8).Draw(t, "c2s")
	c.S2C = rapid.SliceOfN(wg, 0, 8).Draw(t, "s2c")
	// a long-lived connection: more than 500 writes in one direction (the
	// cipher keys rotate every 500 records), small ones so that the volume
	// stays modest
	if rapid.IntRange(0, 11).Draw(t, "long_lived") == 0 {
		n := rapid.SampledFrom([]int{501, 520, 1005}).Draw(t, "many")
		small := make([]int, n)
		for i := range small {
			small[i] = 1 + (i*7)%23
		}
		switch rapid.IntRange(0, 2).Draw(t, "long_dir") {
		case 0:
			c.C2S = small
		case 1:
			c.S2C = small
		default:
			// both directions at once: each side passes its own rotation
			// boundary with records of the other direction in flight
			c.C2S = small
			c.S2C = append([]int(nil), small[:501]...)
		}
	}
	c.FaultC2S = genRelayScript(t, "f_c2s", 80)
	c.FaultS2C = genRelayScript(t, "f_s2c", 80)
	// a burst: 30-90 small writes back to back in one direction, so that the
	// GBN window (the mailbox's fixed N=20, sequence space 21) stays full and
	// wraps several times, with single relay messages lost throughout - among
	// them, in a good share of these cases, the packet that carries the last
	// sequence number of a lap while packets of the next lap are in flight
	if rapid.IntRange(0, 5).Draw(t, "burst") == 0 {
		n := rapid.IntRange(30, 90).Draw(t, "burst_n")
		small := make([]int, n)
		for i := range small {
			small[i] = 1 + (i*11)%37
		}
		pct := rapid.SampledFrom([]int{5, 10, 20}).Draw(t, "burst_drop")
		g := rapid.Custom(func(t *rapid.T) relay.Decision {
			if rapid.IntRange(0, 99).Draw(t, "x") < pct {
				return relay.Decision{Kind: "drop"}
			}
			return relay.Decision{Kind: "deliver"}
		})
		script := rapid.SliceOfN(g, 60, 200).Draw(t, "burst_script")
		if rapid.Bool().Draw(t, "burst_dir") {
			c.C2S, c.FaultC2S = small, script
		} else {
			c.S2C, c.FaultS2C = small, script
		}
	}
	c.LatMs = rapid.SampledFrom([]int{0, 1, 50, 200}).Draw(t, "lat")
	c.ArmAfter = rapid.IntRange(0, 3).Draw(t, "arm_after") != 0
	if rapid.Bool().Draw(t, "vary_bufs") {
		c.Bufs = rapid.SliceOfN(rapid.SampledFrom([]int{100, 1000, 32768, 32769, 65535, 65536, 70000}), 1, 4).Draw(t, "bufs")
	}
	return c
}

func TestC05EndToEnd(t *testing.T) {
	const unit = "TestC05EndToEnd"
	rec := stats.New(t, "C05", unit)
	var rc c05Case
	if stats.ReplayCase(unit, &rc) {
		for i := 0; i < 5; i++ {
			if o := runC05(t, &rc); o.violation != "" {
				if o.deadPeerFullWindow && rec.IsKnown("gbn-dead-peer-full-window-c05") {
					t.Logf("replay run %d matches the recorded finding gbn-dead-peer-full-window-c05: %s", i, o.violation)
					rec.KnownHit("gbn-dead-peer-full-window-c05")
					continue
				}
				rec.Violation(o.violation, "c05", rc)
				t.Fatalf("%s\n%s", o.violation, strings.Join(o.events, "\n"))
			}
		}
		return
	}
	if stats.ReplayMode() {
		t.Skip()
	}
	rapid.Check(t, func(rt *rapid.T) {
		c := genC05(rt)
		rec.Current("c05", c)
		o := runC05(t, c)
		if c.KK {
			o.labels = append(o.labels, "kk")
		}
		if len(c.C2S) > 500 || len(c.S2C) > 500 {
			o.labels = append(o.labels, "more_than_500_writes_in_one_direction")
		}
		if len(c.C2S) > 0 && len(c.S2C) > 0 {
			o.labels = append(o.labels, "bidirectional")
		}
		if (len(c.C2S) >= 30 && len(c.C2S) <= 90) || (len(c.S2C) >= 30 && len(c.S2C) <= 90) {
			o.labels = append(o.labels, "burst_wrapping_the_window_with_losses")
		}
		rec.Case(o.nontrivial, fmt.Sprintf("%+v", *c), o.labels...)
		if o.nontrivial && rec.WantSample() {
			rec.Sample(c)
		}
		if o.violation != "" {
			if o.deadPeerFullWindow && rec.IsKnown("gbn-dead-peer-full-window-c05") {
				rec.KnownHit("gbn-dead-peer-full-window-c05")
				return
			}
			rec.Pending(o.violation, "c05", struct {
				*c05Case
				Events []string `json:"relay_events"`
			}{c, o.events})
			rt.Fatalf("%s", o.violation)
		}
	})
	rec.Done()
}

// relayNow is the time of the latest relay event (the relay's clock at the
// verdict, in the bubble's virtual time).
func relayNow(events []relay.Event) time.Duration {
	var t time.Duration
	for _, e := range events {
		if e.T > t {
			t = e.T
		}
	}
	return t
}

// ---------- real time: relay stream failures ----------

type relayEvent struct {
	AtMs int    `json:"at_ms"`
	Kind string `json:"kind"` // fail_send | fail_recv | down | up | blackhole | deliver
	Dir  string `json:"dir"`  // c2s | s2c (stream)
	N    int    `json:"n,omitempty"`
}

type c05rtCase struct {
	Seed   uint64       `json:"seed"`
	KK     bool         `json:"kk"`
	C2S    []int        `json:"c2s"`
	S2C    []int        `json:"s2c"`
	GapMs  int          `json:"gap_ms"` // pause between writes so that faults hit a live transfer
	Events []relayEvent `json:"events"`
	// Redial: the transfer runs on the second connection of the session
	// (both mailbox conns closed and refreshed, as Client.Dial and
	// Server.Accept do for every connection but the first).
	Redial bool `json:"redial,omitempty"`
}

// runC05RT is the real-time sibling of runC05: the relay breaks streams
// (injected Send/Recv errors) and goes down and up again. The mailbox conns
// then sleep in their 2s re-connect back-off under their stream mutex, which a
// synctest bubble cannot schedule, hence real time.
func runC05RT(c *c05rtCase) (out c05Outcome) {
	start := time.Now()
	r := relay.New(0)
	sid := sidFromSeed(c.Seed)
	c2sID, s2cID := mailbox.GetSID(sid, false), mailbox.GetSID(sid, true)
	mp, err := newMailboxPairOn(r, c.Seed)
	if err != nil {
		out.violation = "setup: " + err.Error()
		return
	}
	closedPair := false
	defer func() {
		if !closedPair {
			mp.CloseWithin(30 * time.Second)
		}
	}()
	if c.Redial {
		// (Close only: the refreshed server connection lives on the
		// context of the first one, as it does under Server.Accept)
		if hung := closeWithin(30*time.Second, []string{"client", "server"}, mp.C.Close, mp.S.Close); len(hung) > 0 {
			out.violation = "Close of the first (idle) connection did not return within 30s: " + strings.Join(hung, ", ")
			return
		}
		rctx, rcancel := context.WithCancel(context.Background())
		var (
			rwg        sync.WaitGroup
			c2         *mailbox.ClientConn
			s2         *mailbox.ServerConn
			cerr, serr error
		)
		rwg.Add(2)
		go func() { defer rwg.Done(); c2, cerr = mailbox.RefreshClientConn(rctx, mp.C) }()
		go func() { defer rwg.Done(); s2, serr = mailbox.RefreshServerConn(mp.S) }()
		rdone := make(chan struct{})
		go func() { rwg.Wait(); close(rdone) }()
		select {
		case <-rdone:
		case <-time.After(60 * time.Second):
			// setting up the second connection is C11's subject; without
			// it there is nothing to transfer over
			rcancel()
			mp.cancel()
			closedPair = true
			out.labels = append(out.labels, "second_connection_not_established")
			return
		}
		if cerr != nil || serr != nil {
			rcancel()
			out.violation = fmt.Sprintf("refreshing the connections on a fault-free relay failed: client %v, server %v", cerr, serr)
			return
		}
		oldCancel := mp.cancel
		mp.C, mp.S, mp.cancel = c2, s2, func() { rcancel(); oldCancel() }
		out.labels = append(out.labels, "second_connection_of_the_session")
	}
	cli, srv := ecdhKey(c.Seed, "cli"), ecdhKey(c.Seed, "srv")
	pass := entropy(c.Seed, "pass", 14)
	auth := entropy(c.Seed, "auth", 64)
	var cRemote, sRemote *btcec.PublicKey
	if c.KK {
		cRemote, sRemote = srv.PubKey(), cli.PubKey()
	}
	cdC := mailbox.NewConnData(cli, cRemote, pass, nil, nil, nil)
	cdS := mailbox.NewConnData(srv, sRemote, pass, auth, nil, nil)
	nc, ns := mailbox.NewNoiseGrpcConn(cdC), mailbox.NewNoiseGrpcConn(cdS)
	var (
		hwg        sync.WaitGroup
		cc, sc     net.Conn
		cerr, serr error
	)
	hwg.Add(2)
	go func() { defer hwg.Done(); cc, _, cerr = nc.ClientHandshake(context.Background(), "", mp.C) }()
	go func() { defer hwg.Done(); sc, _, serr = ns.ServerHandshake(mp.S) }()
	hdone := make(chan struct{})
	go func() { hwg.Wait(); close(hdone) }()
	select {
	case <-hdone:
	case <-time.After(120 * time.Second):
		if c.Redial {
			out.labels = append(out.labels, "second_connection_not_established")
		} else {
			out.violation = "Noise handshake did not finish within 120s on a fault-free relay"
		}
		return
	}
	if cerr != nil || serr != nil {
		if c.Redial {
			// a second connection can be killed by what the first one left
			// in the mailboxes (C10 / C11); the dialer then simply dials
			// again, which is not this property's subject
			out.labels = append(out.labels, "second_connection_not_established")
			return
		}
		out.violation = fmt.Sprintf("Noise handshake failed on a fault-free relay: client %v, server %v", cerr, serr)
		return
	}
	// relay events
	evDone := make(chan struct{})
	go func() {
		defer close(evDone)
		t0 := time.Now()
		for _, e := range c.Events {
			if d := ms(e.AtMs) - time.Since(t0); d > 0 {
				time.Sleep(d)
			}
			id := c2sID
			if e.Dir == "s2c" {
				id = s2cID
			}
			switch e.Kind {
			case "fail_send":
				r.FailNext(id[:], true, e.N)
			case "fail_recv":
				r.FailNext(id[:], false, e.N)
			case "restart":
				// the relay process is restarted: mailboxes and queued
				// messages are gone, streams break
				r.Restart()
			case "down":
				r.SetDown(true)
			case "up":
				r.SetDown(false)
			case "blackhole":
				r.SetBlackhole(true)
			case "deliver":
				r.SetBlackhole(false)
			}
		}
		r.SetDown(false)
		r.SetBlackhole(false)
	}()
	sides := [2]*e2eSide{{conn: cc}, {conn: sc}}
	for i, l := range c.C2S {
		sides[0].offered = append(sides[0].offered, entropy(c.Seed, fmt.Sprintf("c2s/%d", i), l))
	}
	for i, l := range c.S2C {
		sides[1].offered = append(sides[1].offered, entropy(c.Seed, fmt.Sprintf("s2c/%d", i), l))
	}
	var mu sync.Mutex
	var wg sync.WaitGroup
	for i := 0; i < 2; i++ {
		s, peerTotal := sides[i], 0
		for _, p := range sides[1-i].offered {
			peerTotal += len(p)
		}
		wg.Add(2)
		go func() {
			defer wg.Done()
			for _, p := range s.offered {
				time.Sleep(ms(c.GapMs))
				n, err := safeConnWrite(s.conn, p)
				mu.Lock()
				if err != nil || n != len(p) {
					if err == nil {
						err = fmt.Errorf("short write %d of %d", n, len(p))
					}
					s.werr = err
					mu.Unlock()
					return
				}
				s.wrote = append(s.wrote, p)
				mu.Unlock()
			}
		}()
		go func() {
			defer wg.Done()
			buf := make([]byte, 70000)
			got := 0
			for got < peerTotal {
				n, err := safeConnRead(s.conn, buf)
				mu.Lock()
				s.read = append(s.read, buf[:n]...)
				got += n
				if err != nil {
					s.rerr = err
					mu.Unlock()
					return
				}
				mu.Unlock()
			}
		}()
	}
	done := make(chan struct{})
	go func() { wg.Wait(); close(done) }()
	<-evDone
	finished := false
	select {
	case <-done:
		finished = true
	case <-time.After(90 * time.Second): // >= 10x the worst case after the relay is healthy again
	}
	mu.Lock()
	for i := 0; i < 2; i++ {
		want := bytes.Join(sides[1-i].offered, nil)
		got := sides[i].read
		if len(got) > len(want) || !bytes.Equal(got, want[:len(got)]) {
			out.violation = fmt.Sprintf("%s read %d bytes that are not a prefix of the %d bytes its peer wrote",
				[]string{"client", "server"}[i], len(got), len(want))
		}
	}
	if out.violation == "" && !finished {
		var blocked []string
		for i, s := range sides {
			if s.rerr == nil && s.werr == nil {
				blocked = append(blocked, fmt.Sprintf("%s sees no error (read %d bytes, wrote %d of %d records)",
					[]string{"client", "server"}[i], len(s.read), len(s.wrote), len(s.offered)))
			}
		}
		if len(blocked) > 0 {
			out.violation = fmt.Sprintf("transfer neither completed nor failed visibly on both sides 90s after the relay was healthy again (%v since start): %s",
				time.Since(start), strings.Join(blocked, "; "))
		} else {
			out.labels = append(out.labels, "failed_visibly")
		}
	}
	if finished {
		complete := true
		for i := 0; i < 2; i++ {
			if len(sides[i].read) != len(bytes.Join(sides[1-i].offered, nil)) {
				complete = false
			}
		}
		if complete {
			out.labels = append(out.labels, "completed")
		} else {
			out.labels = append(out.labels, "failed_visibly")
		}
	}
	var plains [][]byte
	for _, s := range sides {
		plains = append(plains, s.offered...)
	}
	mu.Unlock()
	// bounded: a Close that cannot take a stream mutex held by a stuck retry
	// loop would otherwise hang the harness itself
	hung := closeWithin(30*time.Second, []string{"client", "server"}, cc.Close, sc.Close)
	hung = append(hung, mp.CloseWithin(30*time.Second)...)
	closedPair = true
	if len(hung) > 0 && out.violation == "" {
		out.violation = fmt.Sprintf("Close of the %s connection did not return within 30s after the transfer (%v since start): the connection neither works nor fails visibly",
			strings.Join(hung, " and "), time.Since(start))
	}
	msgs, events := r.Snapshot()
	nerr := 0
	for _, e := range events {
		if (e.Op == "send_err" || e.Op == "recv_err") && (e.Note == "injected" || e.Note == "down") {
			nerr++
		}
	}
	if nerr > 0 {
		out.labels = append(out.labels, "stream_broken")
	}
	for _, e := range c.Events {
		if e.Kind == "blackhole" {
			out.labels = append(out.labels, "long_silence")
			break
		}
	}
	out.nontrivial = nerr > 0 && len(plains) > 0
	if out.violation == "" {
		for id, list := range msgs {
			for _, m := range list {
				for _, p := range plains {
					if len(p) >= 16 && bytes.Contains(m, p[:16]) {
						out.violation = fmt.Sprintf("a relay message on stream %x.. contains plaintext", id[:4])
					}
				}
				if bytes.Contains(m, auth[:16]) {
					out.violation = "a relay message contains the auth payload"
				}
			}
		}
	}
	if out.violation != "" {
		for _, e := range events {
			if e.Op != "send" && e.Op != "recv" && len(out.events) < 80 {
				out.events = append(out.events, fmt.Sprintf("%v %s %x %s %s", e.T, e.Op, e.Stream[len(e.Stream)-2:], e.Who, e.Note))
			}
		}
	}
	return
}

func TestC05RealTime(t *testing.T) {
	const unit = "TestC05RealTime"
	rec := stats.New(t, "C05", unit)
	var rc c05rtCase
	if stats.ReplayCase(unit, &rc) {
		if o := runC05RT(&rc); o.violation != "" {
			rec.Violation(o.violation, "c05rt", rc)
			t.Fatalf("%s\n%s", o.violation, strings.Join(o.events, "\n"))
		}
		return
	}
	if stats.ReplayMode() {
		t.Skip()
	}
	const batch = 32
	rapid.Check(t, func(rt *rapid.T) {
		cases := make([]*c05rtCase, batch)
		for i := range cases {
			c := &c05rtCase{Seed: rapid.Uint64().Draw(rt, "seed"), KK: rapid.Bool().Draw(rt, "kk")}
			wg := rapid.OneOf(rapid.IntRange(1, 400), rapid.IntRange(1, 20000), rapid.SampledFrom([]int{32768, 65535}))
			c.C2S = rapid.SliceOfN(wg, 1, 6).Draw(rt, "c2s")
			c.S2C = rapid.SliceOfN(wg, 0, 6).Draw(rt, "s2c")
			c.GapMs = rapid.SampledFrom([]int{0, 100, 600}).Draw(rt, "gap")
			eg := rapid.Custom(func(t *rapid.T) relayEvent {
				return relayEvent{
					AtMs: rapid.SampledFrom([]int{0, 50, 300, 1000, 2500, 4000}).Draw(t, "at"),
					Kind: rapid.SampledFrom([]string{"fail_send", "fail_send", "fail_recv", "fail_recv", "down", "up", "restart"}).Draw(t, "kind"),
					Dir:  rapid.SampledFrom([]string{"c2s", "s2c"}).Draw(t, "dir"),
					N:    rapid.IntRange(1, 2).Draw(t, "n"),
				}
			})
			c.Events = rapid.SliceOfN(eg, 1, 4).Draw(rt, "events")
			c.Redial = rapid.Bool().Draw(rt, "redial")
			// a long silence: the relay swallows everything for longer than
			// the keepalive periods (5s/7s ping + 3s pong), then works again
			if rapid.IntRange(0, 2).Draw(rt, "blackhole") == 0 {
				at := rapid.SampledFrom([]int{0, 300, 2500}).Draw(rt, "bh_at")
				// ... in the middle of a transfer that is still going on in
				// both directions
				c.GapMs = 600
				for len(c.C2S) < 5 {
					c.C2S = append(c.C2S, 100)
				}
				for len(c.S2C) < 5 {
					c.S2C = append(c.S2C, 100)
				}
				c.Events = append(c.Events,
					relayEvent{AtMs: at, Kind: "blackhole"},
					relayEvent{AtMs: at + rapid.SampledFrom([]int{9000, 12000, 20000}).Draw(rt, "bh_len"), Kind: "deliver"})
			}
			// events in time order
			for a := 0; a < len(c.Events); a++ {
				for b := a + 1; b < len(c.Events); b++ {
					if c.Events[b].AtMs < c.Events[a].AtMs {
						c.Events[a], c.Events[b] = c.Events[b], c.Events[a]
					}
				}
			}
			cases[i] = c
		}
		outs := make([]c05Outcome, batch)
		var wg sync.WaitGroup
		for i := range cases {
			i := i
			wg.Add(1)
			go func() { defer wg.Done(); outs[i] = runC05RT(cases[i]) }()
		}
		wg.Wait()
		for i, o := range outs {
			rec.Case(o.nontrivial, fmt.Sprintf("%+v", *cases[i]), o.labels...)
			if o.nontrivial && rec.WantSample() {
				rec.Sample(cases[i])
			}
		}
		for i, o := range outs {
			if o.violation != "" {
				rec.Pending(o.violation, "c05rt", struct {
					*c05rtCase
					Events2 []string `json:"relay_events"`
				}{cases[i], o.events})
				rt.Fatalf("%s", o.violation)
			}
		}
	})
	rec.Done()
}
