package mboxprop

import (
	"bytes"
	"fmt"
	"io"
	"testing"

	"pgregory.net/rapid"

	"verif/harness/stats"
)

// edit is one adversarial operation on the captured ciphertext stream.
type edit struct {
	Op   string `json:"op"`             // flip | truncate | drop | dup | swap | replay | reflect_own | reflect_other | inject | swap_header
	Rec  int    `json:"rec,omitempty"`  // record index (taken modulo the number of records)
	Rec2 int    `json:"rec2,omitempty"` // second record / insertion position
	Off  int    `json:"off,omitempty"`  // byte offset within the record (modulo its length)
	Bit  int    `json:"bit,omitempty"`
	Data string `json:"data,omitempty"`
}

type c02Case struct {
	Cfg   hsConfig `json:"cfg"`
	Via   string   `json:"via"`   // machine | grpc | tcp
	Dir   int      `json:"dir"`   // 0: initiator/client writes
	Lens  []int    `json:"lens"`  // records written in the attacked direction
	Other []int    `json:"other"` // records written in the opposite direction (material for reflection)
	Edits []edit   `json:"edits"`
}

type c02Outcome struct {
	violation      string
	consumedEdited bool // the reader consumed at least one byte the script changed
	returned       int
	intact         int
}

// applyEdits applies the script to the list of wire records and returns the
// edited byte stream plus the number of leading records that are untouched.
func applyEdits(recs [][]byte, own [][]byte, edits []edit) (stream []byte, intact int) {
	orig := make([][]byte, len(recs))
	for i := range recs {
		orig[i] = recs[i]
	}
	cur := make([][]byte, len(recs))
	for i := range recs {
		cur[i] = append([]byte(nil), recs[i]...)
	}
	trunc := -1
	for _, e := range edits {
		n := len(cur)
		if n == 0 {
			break
		}
		i := ((e.Rec % n) + n) % n
		switch e.Op {
		case "flip":
			if len(cur[i]) > 0 {
				o := ((e.Off % len(cur[i])) + len(cur[i])) % len(cur[i])
				cur[i][o] ^= 1 << uint(e.Bit%8)
			}
		case "drop":
			cur = append(cur[:i], cur[i+1:]...)
		case "dup":
			cur = append(cur[:i+1], append([][]byte{append([]byte(nil), cur[i]...)}, cur[i+1:]...)...)
		case "swap":
			if i+1 < n {
				cur[i], cur[i+1] = cur[i+1], cur[i]
			}
		case "replay":
			j := ((e.Rec2 % (n + 1)) + n + 1) % (n + 1)
			cp := append([]byte(nil), cur[i]...)
			cur = append(cur[:j], append([][]byte{cp}, cur[j:]...)...)
		case "reflect_own", "reflect_other":
			if len(own) > 0 {
				k := ((e.Rec2 % len(own)) + len(own)) % len(own)
				cp := append([]byte(nil), own[k]...)
				cur = append(cur[:i], append([][]byte{cp}, cur[i:]...)...)
			}
		case "inject":
			d := unhex(e.Data)
			if len(cur[i]) > 0 {
				o := ((e.Off % len(cur[i])) + len(cur[i])) % len(cur[i])
				cur[i] = append(cur[i][:o:o], append(d, cur[i][o:]...)...)
			} else {
				cur[i] = d
			}
		case "swap_header":
			j := ((e.Rec2 % n) + n) % n
			if len(cur[i]) >= 18 && len(cur[j]) >= 18 {
				copy(cur[i][:18], orig[min(j, len(orig)-1)][:18])
			}
		case "truncate":
			total := 0
			for _, r := range cur {
				total += len(r)
			}
			if total > 0 {
				trunc = ((e.Off % total) + total) % total
			}
		}
	}
	for _, r := range cur {
		stream = append(stream, r...)
	}
	if trunc >= 0 && trunc < len(stream) {
		stream = stream[:trunc]
	}
	// leading records whose bytes are exactly where they were
	off := 0
	for _, r := range orig {
		if off+len(r) <= len(stream) && bytes.Equal(stream[off:off+len(r)], r) {
			intact++
			off += len(r)
			continue
		}
		break
	}
	return stream, intact
}

func runC02(c *c02Case) (out c02Outcome) {
	pts := make([][]byte, len(c.Lens))
	for i, l := range c.Lens {
		pts[i] = entropy(c.Cfg.Seed, fmt.Sprintf("c02/%d", i), l)
	}
	opts := make([][]byte, len(c.Other))
	for i, l := range c.Other {
		opts[i] = entropy(c.Cfg.Seed, fmt.Sprintf("c02other/%d", i), l)
	}
	var recs, own [][]byte // wire records of the attacked and of the opposite direction
	var readNext func() ([]byte, error)
	var feed func(stream []byte)

	switch c.Via {
	case "machine":
		p, err := established(c.Cfg)
		if err != nil {
			out.violation = err.Error()
			return
		}
		w, r := p.I.m, p.R.m
		if c.Dir == 1 {
			w, r = p.R.m, p.I.m
		}
		for _, pt := range pts {
			wire, err := writeRecord(w, pt)
			if err != nil {
				out.violation = "write failed: " + err.Error()
				return
			}
			recs = append(recs, wire)
		}
		for _, pt := range opts {
			wire, err := writeRecord(r, pt) // the reader's own ciphertext (other direction)
			if err != nil {
				out.violation = "write failed: " + err.Error()
				return
			}
			own = append(own, wire)
		}
		var rd *bytes.Reader
		feed = func(s []byte) { rd = bytes.NewReader(s) }
		readNext = func() ([]byte, error) { return safeRead(r, rd) }
	default:
		cp, err := newConnPair(c.Via, c.Cfg.Seed, c.Cfg.Pattern == "KK", 32)
		if err != nil {
			out.violation = err.Error()
			return
		}
		defer cp.Close()
		wc, rc := cp.C, cp.S
		wpipe, rpipe := cp.c2s, cp.s2c
		if c.Dir == 1 {
			wc, rc = cp.S, cp.C
			wpipe, rpipe = cp.s2c, cp.c2s
		}
		// hold everything back and capture it per record
		capture := func(h *halfPipe, dst *[][]byte, n int) {
			var curRec []byte
			parts := 0
			h.mitm = func(idx int, msg []byte) [][]byte {
				curRec = append(curRec, msg...)
				parts++
				if parts == 2 { // Flush writes header and body separately
					*dst = append(*dst, curRec)
					curRec, parts = nil, 0
				}
				return nil
			}
		}
		capture(wpipe, &recs, len(pts))
		capture(rpipe, &own, len(opts))
		for _, pt := range pts {
			if n, err := safeConnWrite(wc, pt); err != nil || n != len(pt) {
				out.violation = fmt.Sprintf("%s Write(%d bytes) = %d, %v", c.Via, len(pt), n, err)
				return
			}
		}
		for _, pt := range opts {
			if n, err := safeConnWrite(rc, pt); err != nil || n != len(pt) {
				out.violation = fmt.Sprintf("%s Write(%d bytes) = %d, %v", c.Via, len(pt), n, err)
				return
			}
		}
		if len(recs) != len(pts) {
			out.violation = fmt.Sprintf("captured %d records for %d writes", len(recs), len(pts))
			return
		}
		feed = func(s []byte) {
			wpipe.mu.Lock()
			wpipe.mitm = nil
			wpipe.msgs = append(wpipe.msgs, s)
			wpipe.closed = true // EOF after the edited stream
			wpipe.cond.Broadcast()
			wpipe.mu.Unlock()
		}
		// read whole records: use a buffer large enough for any record so
		// that each successful Read returns one record's plaintext (the grpc
		// variant hands out at most 32 KiB per call; sizes here stay below)
		buf := make([]byte, 70000)
		readNext = func() ([]byte, error) {
			n, err := safeConnRead(rc, buf)
			if err != nil {
				return nil, err
			}
			return append([]byte(nil), buf[:n]...), nil
		}
	}

	stream, intact := applyEdits(recs, own, c.Edits)
	out.intact = intact
	feed(stream)
	// bytes the reader may legitimately consume: the intact prefix
	intactBytes := 0
	for i := 0; i < intact; i++ {
		intactBytes += len(recs[i])
	}
	for {
		got, err := readNext()
		if err != nil {
			if isPanic(err) {
				out.violation = "reader panicked: " + err.Error()
			}
			break
		}
		k := out.returned
		if k >= len(pts) {
			out.violation = fmt.Sprintf("reader returned record #%d (%d bytes) but only %d were written", k, len(got), len(pts))
			break
		}
		if !bytes.Equal(got, pts[k]) {
			out.violation = fmt.Sprintf("reader returned %d bytes as record #%d that differ from what the peer wrote (%d bytes)", len(got), k, len(pts[k]))
			break
		}
		if k >= intact {
			out.violation = fmt.Sprintf("reader accepted record #%d although the stream deviates from the original after %d intact record(s)", k, intact)
			break
		}
		out.returned++
		if c.Via != "machine" && len(got) == 0 {
			// zero-length record on a conn: Read returned 0, nil; fine
		}
	}
	out.consumedEdited = len(stream) != len(bytes.Join(recs, nil)) || !bytes.Equal(stream, bytes.Join(recs, nil))
	// the reader must have been stopped by the first deviation, not earlier
	// than the intact prefix (no spurious error on untouched records) unless
	// the stream simply ended.
	if out.violation == "" && out.returned < intact {
		out.violation = fmt.Sprintf("reader stopped after %d record(s) although %d leading records were untouched", out.returned, intact)
	}
	return
}

func min(a, b int) int {
	if a < b {
		return a
	}
	return b
}

var _ = io.EOF

func genC02(t *rapid.T) *c02Case {
	c := &c02Case{Cfg: genCleanCfg(t)}
	c.Via = rapid.SampledFrom([]string{"machine", "machine", "grpc", "tcp"}).Draw(t, "via")
	c.Dir = rapid.IntRange(0, 1).Draw(t, "dir")
	minLen := 0
	if c.Via != "machine" {
		minLen = 1 // zero-length writes through the conns are C15's subject
	}
	lenGen := rapid.OneOf(rapid.SampledFrom([]int{minLen, 1, 2, 15, 16, 17, 18}), rapid.IntRange(minLen, 200), rapid.SampledFrom([]int{32768, 32767}))
	if c.Via == "machine" {
		lenGen = rapid.OneOf(lenGen, rapid.SampledFrom([]int{65535}))
	}
	c.Lens = rapid.SliceOfN(lenGen, 1, 12).Draw(t, "lens")
	// keep well below the 32 KiB per-Read limit of the grpc variant
	if c.Via == "grpc" {
		for i := range c.Lens {
			if c.Lens[i] > 32000 {
				c.Lens[i] = 32000
			}
		}
	}
	c.Other = rapid.SliceOfN(rapid.IntRange(1, 64), 0, 4).Draw(t, "other")
	eg := rapid.Custom(func(t *rapid.T) edit {
		e := edit{Op: rapid.SampledFrom([]string{"flip", "flip", "truncate", "drop", "dup", "swap", "replay", "reflect_own", "inject", "swap_header"}).Draw(t, "op")}
		e.Rec = rapid.IntRange(0, 11).Draw(t, "rec")
		e.Rec2 = rapid.IntRange(0, 12).Draw(t, "rec2")
		e.Off = rapid.IntRange(0, 70000).Draw(t, "off")
		e.Bit = rapid.IntRange(0, 7).Draw(t, "bit")
		if e.Op == "inject" {
			e.Data = fmt.Sprintf("%x", rapid.SliceOfN(rapid.Byte(), 1, 40).Draw(t, "data"))
		}
		return e
	})
	c.Edits = rapid.SliceOfN(eg, 0, 4).Draw(t, "edits")
	return c
}

func TestC02EditScripts(t *testing.T) {
	const unit = "TestC02EditScripts"
	rec := stats.New(t, "C02", unit)
	var rc c02Case
	if stats.ReplayCase(unit, &rc) {
		if o := runC02(&rc); o.violation != "" {
			rec.Violation(o.violation, "c02", rc)
			t.Fatal(o.violation)
		}
		return
	}
	if stats.ReplayMode() {
		t.Skip()
	}
	rapid.Check(t, func(rt *rapid.T) {
		c := genC02(rt)
		rec.Current("c02", c)
		o := runC02(c)
		labels := []string{"via_" + c.Via}
		for _, e := range c.Edits {
			labels = append(labels, "op_"+e.Op)
		}
		rec.Case(o.consumedEdited, fmt.Sprintf("%+v", *c), labels...)
		if o.consumedEdited && rec.WantSample() {
			rec.Sample(c)
		}
		if o.violation != "" {
			rec.Pending(o.violation, "c02", c)
			rt.Fatalf("%s", o.violation)
		}
	})
	rec.Done()
}

// TestC02BitFlips: every single-bit flip of one whole record (header, body and
// both MACs), for several record sizes and positions in the stream (first,
// middle, right after a key rotation), XX and KK, both directions.
// flipPositions are the (zero-based) stream positions at which TestC02BitFlips
// attacks a record: the first ones and the ones around the key rotations after
// 500 and 1000 records.
var flipPositions = []int{0, 1, 2, 498, 499, 500, 501, 999, 1000}

func TestC02BitFlips(t *testing.T) {
	const unit = "TestC02BitFlips"
	rec := stats.New(t, "C02", unit)
	var rc c02Case
	if stats.ReplayCase(unit, &rc) {
		if o := runC02(&rc); o.violation != "" {
			rec.Violation(o.violation, "c02", rc)
			t.Fatal(o.violation)
		}
		return
	}
	if stats.ReplayMode() {
		t.Skip()
	}
	seed := stats.Seed()
	nviol := 0
	sizes := []int{0, 1, 2, 16, 33}
	if stats.Thorough() {
		sizes = []int{0, 1, 2, 15, 16, 17, 33, 100, 300}
	}
	shard, shards := stats.Shard()
	idx := 0
	for _, pat := range []string{"XX", "KK"} {
		for dir := 0; dir < 2; dir++ {
			for _, size := range sizes {
				idx++
				if idx%shards != shard {
					continue
				}
				cfg := hsConfig{Pattern: pat, IMin: 0, IMax: 2, RMin: 0, RMax: 2, Seed: seed, AuthLen: 16, PassMode: "same", IKnowsR: true, RKnowsI: true}
				// One session per (pattern, direction, size). At every attacked
				// position all single-bit flips of the record are offered to
				// value copies of the reader (the AEAD holds no state besides
				// its key, so a copy of the Machine is an independent reader in
				// the same state); then the genuine record is delivered and the
				// session goes on. Positions: the first records, and the records
				// around the key rotation (the 500th record is the last one
				// under the first key; its body is where the rotation happens).
				p, err := established(cfg)
				if err != nil {
					t.Fatal(err)
				}
				w, r := p.I.m, p.R.m
				if dir == 1 {
					w, r = p.R.m, p.I.m
				}
				attacked := map[int]bool{}
				for _, x := range flipPositions {
					attacked[x] = true
				}
				last := flipPositions[len(flipPositions)-1]
				pt := entropy(seed, "flip", size)
				for pos := 0; pos <= last; pos++ {
					if !attacked[pos] {
						wire, _ := writeRecord(w, []byte{byte(pos)})
						if _, err := safeRead(r, bytes.NewReader(wire)); err != nil {
							t.Fatalf("untouched record %d failed: %v", pos, err)
						}
						continue
					}
					wire, _ := writeRecord(w, pt)
					for bit := 0; bit < len(wire)*8; bit++ {
						mut := append([]byte(nil), wire...)
						mut[bit/8] ^= 1 << uint(bit%8)
						cp := *r
						got, err := safeRead(&cp, bytes.NewReader(mut))
						rec.Case(true, fmt.Sprintf("%s/%d/%d/%d/%d", pat, dir, size, pos, bit), "bitflip_"+pat, fmt.Sprintf("bitflip_at_record_%d", pos))
						if err == nil {
							nviol++
							if nviol < 5 {
								rec.Violation(fmt.Sprintf("record with bit %d flipped (size %d, position %d, %s, dir %d) was accepted and returned %d bytes", bit, size, pos, pat, dir, len(got)),
									"c02", c02Case{Cfg: cfg, Via: "machine", Dir: dir, Lens: []int{size}, Edits: []edit{{Op: "flip", Rec: 0, Off: bit / 8, Bit: bit % 8}}})
							}
						} else if isPanic(err) {
							nviol++
							rec.Violation("reader panicked on a flipped bit: "+err.Error(), "c02", c02Case{Cfg: cfg, Via: "machine", Dir: dir, Lens: []int{size}})
						}
					}
					got, err := safeRead(r, bytes.NewReader(wire))
					if err != nil || !bytes.Equal(got, pt) {
						t.Fatalf("genuine record %d failed: %v", pos, err)
					}
				}
			}
		}
	}
	rec.Sample(map[string]any{"enumerated": "every single-bit flip of one whole record (header+MAC+body+MAC)", "sizes": sizes, "positions": flipPositions, "patterns": []string{"XX", "KK"}, "directions": 2})
	rec.SetExhaustive(true)
	rec.Done()
	if nviol > 0 {
		t.Fatalf("%d violations", nviol)
	}
}

// ---------- replays across key rotations ----------

type rotCase struct {
	Cfg   hsConfig `json:"cfg"`
	Dir   int      `json:"dir"`
	Count int      `json:"count"` // records written (crosses one or more rotations)
	Len   int      `json:"len"`
	Same  bool     `json:"same"` // all records carry the same plaintext
	At    int      `json:"at"`   // position at which the stream is tampered with
	Src   int      `json:"src"`  // record delivered there instead of record At
}

// runC02Rot writes Count records, delivers 0..At-1 untouched, then record Src
// in place of record At. The reader must fail at position At (unless Src == At).
func runC02Rot(c *rotCase) string {
	p, err := established(c.Cfg)
	if err != nil {
		return err.Error()
	}
	w, r := p.I.m, p.R.m
	if c.Dir == 1 {
		w, r = p.R.m, p.I.m
	}
	recs := make([][]byte, c.Count)
	pts := make([][]byte, c.Count)
	for i := range recs {
		if c.Same {
			pts[i] = entropy(c.Cfg.Seed, "rot-same", c.Len)
		} else {
			pts[i] = entropy(c.Cfg.Seed, fmt.Sprintf("rot/%d", i), c.Len)
		}
		if recs[i], err = writeRecord(w, pts[i]); err != nil {
			return "write failed: " + err.Error()
		}
	}
	for i := 0; i < c.At; i++ {
		got, err := safeRead(r, bytes.NewReader(recs[i]))
		if err != nil {
			return fmt.Sprintf("untouched record %d of %d failed to decrypt: %v", i, c.Count, err)
		}
		if !bytes.Equal(got, pts[i]) {
			return fmt.Sprintf("untouched record %d decrypted to different bytes", i)
		}
	}
	// Every earlier record at a distance at which a truncated or badly
	// carried nonce counter, or a key kept across a rotation, would repeat
	// (powers of two and their neighbours, the rotation period and its
	// half) is offered to a copy of the reader at position At; none may be
	// accepted. The AEAD holds no state besides its key, so a value copy of
	// the Machine is an independent reader in the same state.
	if c.Src != c.At {
		var dists []int
		for d := 1; d <= c.At; d *= 2 {
			dists = append(dists, d-1, d, d+1)
		}
		dists = append(dists, 250, 499, 500, 501, 750, 999, 1000, 1001, 1500)
		for _, d := range dists {
			src := c.At - d
			if d <= 0 || src < 0 || src == c.Src {
				continue
			}
			cp := *r
			got, err := safeRead(&cp, bytes.NewReader(recs[src]))
			if isPanic(err) {
				return "reader panicked: " + err.Error()
			}
			if err == nil {
				return fmt.Sprintf("record %d delivered at position %d (distance %d) was accepted as valid and returned %d bytes", src, c.At, d, len(got))
			}
		}
	}
	got, err := safeRead(r, bytes.NewReader(recs[c.Src]))
	if c.Src == c.At {
		if err != nil || !bytes.Equal(got, pts[c.At]) {
			return fmt.Sprintf("record %d failed although nothing was changed: %v", c.At, err)
		}
		return ""
	}
	if isPanic(err) {
		return "reader panicked: " + err.Error()
	}
	if err == nil {
		return fmt.Sprintf("record %d delivered at position %d (distance %d) was accepted as valid and returned %d bytes", c.Src, c.At, c.At-c.Src, len(got))
	}
	return ""
}

func TestC02CrossRotation(t *testing.T) {
	const unit = "TestC02CrossRotation"
	rec := stats.New(t, "C02", unit)
	var rc rotCase
	if stats.ReplayCase(unit, &rc) {
		if v := runC02Rot(&rc); v != "" {
			rec.Violation(v, "rot", rc)
			t.Fatal(v)
		}
		return
	}
	if stats.ReplayMode() {
		t.Skip()
	}
	rapid.Check(t, func(rt *rapid.T) {
		c := &rotCase{Cfg: genCleanCfg(rt), Dir: rapid.IntRange(0, 1).Draw(rt, "dir")}
		c.Len = rapid.SampledFrom([]int{0, 1, 2, 16, 40}).Draw(rt, "len")
		c.Same = rapid.Bool().Draw(rt, "same")
		c.At = rapid.OneOf(rapid.IntRange(1, 1700), rapid.SampledFrom([]int{499, 500, 501, 999, 1000, 1001, 1500})).Draw(rt, "at")
		c.Count = c.At + 1
		// the record delivered instead: an earlier one, preferably at a
		// distance that is a multiple of the rotation period (500 records) or
		// of half of it (the nonce counter runs two per record)
		dist := rapid.SampledFrom([]int{1, 2, 250, 499, 500, 501, 1000, 1500, 0}).Draw(rt, "dist")
		if dist == 0 {
			dist = rapid.IntRange(1, c.At).Draw(rt, "dist_any")
		}
		c.Src = c.At - dist
		if c.Src < 0 {
			c.Src = c.At % 500
			if c.Src == c.At {
				c.Src = 0
			}
		}
		rec.Current("rot", c)
		v := runC02Rot(c)
		lab := "replay_within_epoch"
		if c.At/500 != c.Src/500 {
			lab = "replay_across_rotation"
		}
		if (c.At-c.Src)%500 == 0 {
			lab += "_aligned"
		}
		rec.Case(c.At/500 != c.Src/500, fmt.Sprintf("%+v", *c), lab)
		if c.At/500 != c.Src/500 && rec.WantSample() {
			rec.Sample(c)
		}
		if v != "" {
			rec.Pending(v, "rot", c)
			rt.Fatalf("%s", v)
		}
	})
	rec.Done()
}
