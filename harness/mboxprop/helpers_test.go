package mboxprop

import (
	"bytes"
	"crypto/sha256"
	"encoding/binary"
	"errors"
	"fmt"
	"io"
	"sync"
	"time"

	"github.com/btcsuite/btcd/btcec/v2"
	"github.com/lightninglabs/lightning-node-connect/mailbox"
	"github.com/lightningnetwork/lnd/keychain"
	"pgregory.net/rapid"
)

// ---------- deterministic keys ----------

// keyFromSeed derives a valid secp256k1 private key from a seed.
func keyFromSeed(seed uint64, label string) *btcec.PrivateKey {
	h := sha256.Sum256([]byte(fmt.Sprintf("%s/%d", label, seed)))
	h[0] &= 0x7f // stay below the group order
	if bytes.Equal(h[:], make([]byte, 32)) {
		h[31] = 1
	}
	k, _ := btcec.PrivKeyFromBytes(h[:])
	return k
}

// impostorKey claims one public key and computes ECDH with another private key.
type impostorKey struct {
	claimed *btcec.PublicKey
	actual  keychain.SingleKeyECDH
}

func (k *impostorKey) PubKey() *btcec.PublicKey { return k.claimed }

func (k *impostorKey) ECDH(pub *btcec.PublicKey) ([32]byte, error) { return k.actual.ECDH(pub) }

func ecdhKey(seed uint64, label string) keychain.SingleKeyECDH {
	return &keychain.PrivKeyECDH{PrivKey: keyFromSeed(seed, label)}
}

// ephGen returns a deterministic ephemeral key generator.
func ephGen(seed uint64, label string) func() (*btcec.PrivateKey, error) {
	n := 0
	return func() (*btcec.PrivateKey, error) {
		n++
		return keyFromSeed(seed, fmt.Sprintf("%s/eph%d", label, n)), nil
	}
}

// entropy returns n high-entropy deterministic bytes.
func entropy(seed uint64, label string, n int) []byte {
	out := make([]byte, 0, n+32)
	var ctr uint64
	for len(out) < n {
		var b [8]byte
		binary.LittleEndian.PutUint64(b[:], ctr)
		h := sha256.Sum256(append([]byte(fmt.Sprintf("%s/%d/", label, seed)), b[:]...))
		out = append(out, h[:]...)
		ctr++
	}
	return out[:n]
}

// ---------- message pipe ----------

var errPipeClosed = errors.New("pipe closed")

// halfPipe is one direction of an in-memory transport. Each Write is one
// message; Read returns bytes of the current message only (like the mailbox
// connKit, whose Read drains one control message at a time) unless stream is
// set, in which case it is a plain byte stream read in fragments of at most
// frag bytes.
// stallState lets the two directions of a duplex notice that both parties wait
// for bytes that will never come (the stand-in for the handshake read
// deadline of the real transport). A party is idle if it has returned, or if
// it waits in Read on an empty pipe; the "waiting" flag lives in the pipe and
// is guarded by the pipe's mutex, like the pipe's content, so that check sees
// a consistent picture.
type stallState struct {
	mu    sync.Mutex
	done  [2]bool      // party i has returned from DoHandshake
	pipes [2]*halfPipe // pipes[i] is read by party i
}

// check closes both pipes if nobody can make progress any more. Must be called
// without any halfPipe mutex held.
func (st *stallState) check() {
	st.mu.Lock()
	done := st.done
	st.mu.Unlock()
	st.pipes[0].mu.Lock()
	st.pipes[1].mu.Lock()
	idle := [2]bool{}
	for i, h := range st.pipes {
		idle[i] = done[i] || (h.readerWaiting && len(h.msgs) == 0 && len(h.cur) == 0 && !h.closed)
	}
	stuck := idle[0] && idle[1] && !(done[0] && done[1])
	if stuck {
		for _, h := range st.pipes {
			h.closed = true
			h.cond.Broadcast()
		}
	}
	st.pipes[1].mu.Unlock()
	st.pipes[0].mu.Unlock()
}

type halfPipe struct {
	stall         *stallState
	readerWaiting bool // the reading party waits for data (guarded by mu)
	mu            sync.Mutex
	cond          *sync.Cond
	msgs          [][]byte
	cur           []byte
	closed        bool
	frag          int // >0: Read returns at most frag bytes and crosses message boundaries
	// mitm is applied to every written message (index = ordinal) and returns
	// the messages to deliver instead.
	mitm    func(idx int, msg []byte) [][]byte
	widx    int
	Written [][]byte // everything the writer wrote (before the MITM)
	Wire    [][]byte // everything handed to the reader side (after the MITM)
}

func newHalfPipe() *halfPipe {
	h := &halfPipe{}
	h.cond = sync.NewCond(&h.mu)
	return h
}

func (h *halfPipe) Write(p []byte) (int, error) {
	h.mu.Lock()
	defer h.mu.Unlock()
	if h.closed {
		return 0, errPipeClosed
	}
	cp := append([]byte(nil), p...)
	h.Written = append(h.Written, cp)
	out := [][]byte{cp}
	if h.mitm != nil {
		out = h.mitm(h.widx, cp)
	}
	h.widx++
	for _, m := range out {
		m = append([]byte(nil), m...)
		h.Wire = append(h.Wire, m)
		h.msgs = append(h.msgs, m)
	}
	h.cond.Broadcast()
	return len(p), nil
}

func (h *halfPipe) Read(p []byte) (int, error) {
	h.mu.Lock()
	defer h.mu.Unlock()
	for len(h.cur) == 0 {
		if len(h.msgs) > 0 {
			h.cur = h.msgs[0]
			h.msgs = h.msgs[1:]
			if len(h.cur) == 0 {
				// an empty message: nothing to hand over, keep waiting
				continue
			}
			break
		}
		if h.closed {
			return 0, io.EOF
		}
		if h.stall != nil {
			h.readerWaiting = true
			h.mu.Unlock()
			h.stall.check()
			h.mu.Lock()
			if len(h.msgs) > 0 || h.closed {
				h.readerWaiting = false
				continue
			}
		}
		h.cond.Wait()
		h.readerWaiting = false
	}
	n := len(p)
	if h.frag > 0 && n > h.frag {
		n = h.frag
	}
	n = copy(p[:n], h.cur)
	h.cur = h.cur[n:]
	return n, nil
}

func (h *halfPipe) Close() {
	h.mu.Lock()
	h.closed = true
	h.cond.Broadcast()
	h.mu.Unlock()
}

// duplex is the view of one party: it reads from in and writes to out.
type duplex struct {
	in, out *halfPipe
}

func (d *duplex) Read(p []byte) (int, error)  { return d.in.Read(p) }
func (d *duplex) Write(p []byte) (int, error) { return d.out.Write(p) }

// newDuplexPair returns the initiator's and the responder's view.
func newDuplexPair() (ini, res *duplex, i2r, r2i *halfPipe) {
	i2r, r2i = newHalfPipe(), newHalfPipe()
	return &duplex{in: r2i, out: i2r}, &duplex{in: i2r, out: r2i}, i2r, r2i
}

// ---------- handshake configuration ----------

type hsConfig struct {
	Pattern string `json:"pattern"` // XX | KK
	IMin    int    `json:"imin"`
	IMax    int    `json:"imax"`
	RMin    int    `json:"rmin"`
	RMax    int    `json:"rmax"`
	Seed    uint64 `json:"seed"`
	AuthLen int    `json:"auth_len"`
	NilAuth bool   `json:"nil_auth,omitempty"`
	// secrets: passphrase of the responder differs from the initiator's?
	PassMode string `json:"pass_mode,omitempty"` // same | bit | random | short
	PassBit  int    `json:"pass_bit,omitempty"`
	// KK: does each side store the peer's true key?
	IKnowsR bool `json:"i_knows_r,omitempty"`
	RKnowsI bool `json:"r_knows_i,omitempty"`
	// Impostor ("initiator" | "responder", KK only): that party presents the
	// static public key its peer stored at pairing time but does not own the
	// matching private key (its ECDH operations use an unrelated key).
	Impostor string `json:"impostor,omitempty"`
	// passOverride (not serialised): both parties use exactly this
	// passphrase entropy (used to pair other sessions earlier in the process).
	passOverride []byte
	// StaleAuth: the initiator's ConnData already holds an auth payload from
	// an earlier handshake (the real client keeps one ConnData across the
	// pairing handshake and every reconnect).
	StaleAuth bool `json:"stale_auth,omitempty"`
}

// staleAuth is what the initiator holds before the handshake when
// cfg.StaleAuth is set.
func staleAuth(cfg hsConfig) []byte {
	if !cfg.StaleAuth {
		return nil
	}
	return entropy(cfg.Seed, "stale-auth", 24)
}

type party struct {
	cd        *mailbox.ConnData
	m         *mailbox.Machine
	static    keychain.SingleKeyECDH
	err       error
	gotRemote []*btcec.PublicKey
	gotAuth   [][]byte
	ctorErr   error
}

type hsPair struct {
	cfg      hsConfig
	I, R     *party
	i2r, r2i *halfPipe
	iRW, rRW *duplex
	auth     []byte
	passI    []byte
	passR    []byte
}

func pattern(name string) mailbox.HandshakePattern {
	if name == "KK" {
		return mailbox.KKPattern
	}
	return mailbox.XXPattern
}

// newHSPair builds both machines (not yet run).
func newHSPair(cfg hsConfig) *hsPair {
	p := &hsPair{cfg: cfg}
	p.passI = entropy(cfg.Seed, "pass", 14)
	p.passR = append([]byte(nil), p.passI...)
	switch cfg.PassMode {
	case "bit":
		p.passR[(cfg.PassBit/8)%14] ^= 1 << (cfg.PassBit % 8)
	case "random":
		p.passR = entropy(cfg.Seed, "otherpass", 14)
	case "short":
		p.passR = p.passR[:13]
	case "pad0":
		// differs only by a trailing zero byte (equal as zero-padded keys)
		p.passR = append(p.passR, 0)
	case "trail0":
		// the initiator's phrase ends in a zero byte which the responder's
		// lacks
		p.passI[13] = 0
		p.passR = append([]byte(nil), p.passI[:13]...)
	}
	if cfg.passOverride != nil {
		p.passI = append([]byte(nil), cfg.passOverride...)
		p.passR = append([]byte(nil), cfg.passOverride...)
	}
	if !cfg.NilAuth {
		p.auth = entropy(cfg.Seed, "auth", cfg.AuthLen)
		if p.auth == nil {
			p.auth = []byte{}
		}
	}
	p.I, p.R = &party{}, &party{}
	p.I.static = ecdhKey(cfg.Seed, "istatic")
	p.R.static = ecdhKey(cfg.Seed, "rstatic")
	var iRemote, rRemote *btcec.PublicKey
	if cfg.Pattern == "KK" {
		iRemote, rRemote = p.R.static.PubKey(), p.I.static.PubKey()
		switch cfg.Impostor {
		case "initiator":
			p.I.static = &impostorKey{claimed: p.I.static.PubKey(), actual: ecdhKey(cfg.Seed, "impostor")}
		case "responder":
			p.R.static = &impostorKey{claimed: p.R.static.PubKey(), actual: ecdhKey(cfg.Seed, "impostor")}
		// a party whose private-key operation is unavailable (locked wallet,
		// remote signer down) cannot prove that it holds the paired key
		case "initiator_fails":
			p.I.static = &failingKey{SingleKeyECDH: p.I.static}
		case "responder_fails":
			p.R.static = &failingKey{SingleKeyECDH: p.R.static}
		case "both_fail":
			p.I.static = &failingKey{SingleKeyECDH: p.I.static}
			p.R.static = &failingKey{SingleKeyECDH: p.R.static}
		}
		if !cfg.IKnowsR {
			iRemote = keyFromSeed(cfg.Seed, "wrong-r").PubKey()
		}
		if !cfg.RKnowsI {
			rRemote = keyFromSeed(cfg.Seed, "wrong-i").PubKey()
		}
	}
	mk := func(pt *party, remote *btcec.PublicKey, pass, auth []byte) {
		// the callbacks call back into the ConnData (allowed: they run
		// without its lock), as an application that looks at the session
		// from its callback does
		touch := func() {
			if c := pt.cd; c != nil {
				_, _ = c.SID()
				_ = c.RemoteKey()
				_ = c.AuthData()
				_ = c.HandshakePattern()
			}
		}
		pt.cd = mailbox.NewConnData(pt.static, remote, pass, auth,
			func(k *btcec.PublicKey) error { touch(); pt.gotRemote = append(pt.gotRemote, k); return nil },
			func(d []byte) error { touch(); pt.gotAuth = append(pt.gotAuth, d); return nil })
	}
	mk(p.I, iRemote, p.passI, staleAuth(cfg))
	mk(p.R, rRemote, p.passR, p.auth)
	p.I.m, p.I.ctorErr = mailbox.NewBrontideMachine(&mailbox.BrontideMachineConfig{
		ConnData: p.I.cd, Initiator: true, HandshakePattern: pattern(cfg.Pattern),
		MinHandshakeVersion: byte(cfg.IMin), MaxHandshakeVersion: byte(cfg.IMax),
		EphemeralGen: ephGen(cfg.Seed, "i"),
	})
	p.R.m, p.R.ctorErr = mailbox.NewBrontideMachine(&mailbox.BrontideMachineConfig{
		ConnData: p.R.cd, Initiator: false, HandshakePattern: pattern(cfg.Pattern),
		MinHandshakeVersion: byte(cfg.RMin), MaxHandshakeVersion: byte(cfg.RMax),
		EphemeralGen: ephGen(cfg.Seed, "r"),
	})
	p.iRW, p.rRW, p.i2r, p.r2i = newDuplexPair()
	return p
}

// run executes both DoHandshake calls concurrently. When one side aborts, the
// transport is closed in both directions (as the mailbox conn would be).
func (p *hsPair) run() {
	if p.I.ctorErr != nil || p.R.ctorErr != nil {
		p.I.err, p.R.err = p.I.ctorErr, p.R.ctorErr
		if p.I.err == nil {
			p.I.err = errors.New("peer could not be constructed")
		}
		if p.R.err == nil {
			p.R.err = errors.New("peer could not be constructed")
		}
		return
	}
	// party 0 = initiator (reads r2i), party 1 = responder (reads i2r)
	st := &stallState{pipes: [2]*halfPipe{p.r2i, p.i2r}}
	p.r2i.stall = st
	p.i2r.stall = st
	finished := func(i int) {
		st.mu.Lock()
		st.done[i] = true
		st.mu.Unlock()
		st.check()
	}
	var wg sync.WaitGroup
	wg.Add(2)
	go func() {
		defer wg.Done()
		p.I.err = safeHandshake(p.I.m, p.iRW)
		if p.I.err != nil {
			p.i2r.Close()
			p.r2i.Close()
		}
		finished(0)
	}()
	go func() {
		defer wg.Done()
		p.R.err = safeHandshake(p.R.m, p.rRW)
		if p.R.err != nil {
			p.i2r.Close()
			p.r2i.Close()
		}
		finished(1)
	}()
	done := make(chan struct{})
	go func() { wg.Wait(); close(done) }()
	select {
	case <-done:
	case <-time.After(20 * time.Second):
		// a party waits for bytes that never come (the MITM dropped or
		// shortened a message): close the transport, as a read deadline would
		p.i2r.Close()
		p.r2i.Close()
		<-done
	}
}

type panicError struct{ v any }

func (p panicError) Error() string { return fmt.Sprintf("PANIC: %v", p.v) }

func safeHandshake(m *mailbox.Machine, rw io.ReadWriter) (err error) {
	defer func() {
		if r := recover(); r != nil {
			err = panicError{r}
		}
	}()
	return m.DoHandshake(rw)
}

func isPanic(err error) bool {
	var pe panicError
	return errors.As(err, &pe)
}

// established runs a clean handshake and returns the pair (for stream tests).
func established(cfg hsConfig) (*hsPair, error) {
	p := newHSPair(cfg)
	p.run()
	if p.I.err != nil || p.R.err != nil {
		return nil, fmt.Errorf("clean handshake failed: initiator %v, responder %v", p.I.err, p.R.err)
	}
	return p, nil
}

// cleanCfg draws a configuration whose handshake must succeed.
func genCleanCfg(t *rapid.T) hsConfig {
	c := hsConfig{Seed: rapid.Uint64().Draw(t, "seed")}
	if rapid.Bool().Draw(t, "kk") {
		c.Pattern = "KK"
		c.IMin, c.IMax, c.RMin, c.RMax = 0, 2, 0, 2
		c.IKnowsR, c.RKnowsI = true, true
	} else {
		c.Pattern = "XX"
		v := rapid.IntRange(0, 2).Draw(t, "version")
		c.IMin, c.IMax, c.RMin, c.RMax = 0, 2, 0, v
	}
	c.AuthLen = rapid.SampledFrom([]int{0, 1, 32, 200}).Draw(t, "auth_len")
	c.PassMode = "same"
	c.StaleAuth = rapid.IntRange(0, 3).Draw(t, "stale_auth") == 0
	return c
}

// writeRecord encrypts p on m and returns the wire bytes.
func writeRecord(m *mailbox.Machine, p []byte) ([]byte, error) {
	if err := m.WriteMessage(p); err != nil {
		return nil, err
	}
	var buf bytes.Buffer
	if _, err := m.Flush(&buf); err != nil {
		return nil, err
	}
	return buf.Bytes(), nil
}

func safeRead(m *mailbox.Machine, r io.Reader) (b []byte, err error) {
	defer func() {
		if rec := recover(); rec != nil {
			err = panicError{rec}
		}
	}()
	return m.ReadMessage(r)
}

func ms(d int) time.Duration { return time.Duration(d) * time.Millisecond }
