package mboxprop

import (
	"bytes"
	"fmt"
	"io"
	"sync"
	"testing"
	"time"

	"pgregory.net/rapid"

	"verif/harness/stats"
)

// Coalescing: the other face of fragmentation. A byte-stream transport (TCP)
// may hand a reader fewer bytes than it asked for, and it hands over as many
// as it asked for whenever they are there - including bytes of the NEXT
// message. Here the whole life of a connection runs over one lazy byte
// stream per direction: a party's Read is served only when its peer cannot go
// on without it (the peer waits for data itself, or has finished), so that by
// the time the last handshake act is read the peer has already completed its
// handshake and written its first records behind it. Read sizes are capped by
// a drawn limit (1 byte .. unlimited).
//
// Oracle: the handshake succeeds and each side reads exactly the records the
// other wrote - a reader that takes more from the transport than the field it
// is parsing (and drops the rest) loses the beginning of the record stream.
type coalesceCase struct {
	Cfg     hsConfig `json:"cfg"`
	IWrites []int    `json:"i_writes"` // record lengths written by the initiator right after its handshake
	RWrites []int    `json:"r_writes"`
	MaxRead []int    `json:"max_read"` // cap per Read call (cycled; 0: unlimited)
}

type lazyStream struct {
	mu       *sync.Mutex
	cond     *sync.Cond
	buf      []byte // bytes written by the peer, not yet read by the owner
	waiting  bool   // the owner is blocked in Read
	finished bool   // the owner has written everything it will ever write
	peer     *lazyStream
	maxRead  []int
	calls    int
	// coalesced: a Read that was served while more than the requested bytes
	// were available
	sawBacklog bool
	dead       bool
}

func (s *lazyStream) Read(p []byte) (int, error) {
	s.mu.Lock()
	defer s.mu.Unlock()
	for {
		if s.dead {
			return 0, io.ErrClosedPipe
		}
		if len(s.buf) > 0 && (s.peer.waiting || s.peer.finished) {
			break
		}
		if len(s.buf) == 0 && s.peer.finished {
			return 0, io.EOF
		}
		s.waiting = true
		s.cond.Broadcast()
		s.cond.Wait()
	}
	s.waiting = false
	n := len(p)
	if len(s.maxRead) > 0 {
		if m := s.maxRead[s.calls%len(s.maxRead)]; m > 0 && n > m {
			n = m
		}
		s.calls++
	}
	if len(s.buf) > len(p) {
		s.sawBacklog = true
	}
	n = copy(p[:n], s.buf)
	s.buf = s.buf[n:]
	return n, nil
}

// Write appends to the PEER's inbound buffer.
func (s *lazyStream) Write(p []byte) (int, error) {
	s.mu.Lock()
	defer s.mu.Unlock()
	if s.dead {
		return 0, io.ErrClosedPipe
	}
	s.peer.buf = append(s.peer.buf, p...)
	s.cond.Broadcast()
	return len(p), nil
}

func (s *lazyStream) finish() {
	s.mu.Lock()
	s.finished = true
	s.cond.Broadcast()
	s.mu.Unlock()
}

func runCoalesce(c *coalesceCase) (violation string, backlog bool) {
	p := newHSPair(c.Cfg)
	if p.I.ctorErr != nil || p.R.ctorErr != nil {
		return fmt.Sprintf("machine construction failed: %v %v", p.I.ctorErr, p.R.ctorErr), false
	}
	var mu sync.Mutex
	cond := sync.NewCond(&mu)
	si := &lazyStream{mu: &mu, cond: cond, maxRead: c.MaxRead}
	sr := &lazyStream{mu: &mu, cond: cond, maxRead: c.MaxRead}
	si.peer, sr.peer = sr, si
	type side struct {
		m      interface{}
		err    string
		got    [][]byte
		stream *lazyStream
	}
	var res [2]string
	var got [2][][]byte
	pts := func(who string, lens []int) [][]byte {
		var out [][]byte
		for i, l := range lens {
			out = append(out, entropy(c.Cfg.Seed, fmt.Sprintf("coalesce-%s-%d", who, i), l))
		}
		return out
	}
	iPT, rPT := pts("i", c.IWrites), pts("r", c.RWrites)
	var wg sync.WaitGroup
	party := func(idx int, pt *party, st *lazyStream, mine, theirs [][]byte) {
		defer wg.Done()
		defer st.finish()
		if err := safeHandshake(pt.m, st); err != nil {
			res[idx] = "handshake failed over a lazy byte stream (clean configuration, nothing altered): " + err.Error()
			return
		}
		for i, b := range mine {
			if err := pt.m.WriteMessage(b); err != nil {
				res[idx] = fmt.Sprintf("WriteMessage %d failed: %v", i, err)
				return
			}
			if _, err := pt.m.Flush(st); err != nil {
				res[idx] = fmt.Sprintf("Flush %d failed: %v", i, err)
				return
			}
		}
		st.finish()
		for i := range theirs {
			b, err := safeRead(pt.m, st)
			if err != nil {
				res[idx] = fmt.Sprintf("record %d of %d written by the peer right behind its handshake could not be read: %v (read cap %v)", i, len(theirs), err, c.MaxRead)
				return
			}
			got[idx] = append(got[idx], b)
		}
	}
	wg.Add(2)
	go party(0, p.I, si, iPT, rPT)
	go party(1, p.R, sr, rPT, iPT)
	done := make(chan struct{})
	go func() { wg.Wait(); close(done) }()
	select {
	case <-done:
	case <-time.After(60 * time.Second):
		mu.Lock()
		si.dead, sr.dead = true, true
		cond.Broadcast()
		mu.Unlock()
		<-done
		return "handshake and first records did not complete within 60 s over a lazy byte stream (both parties waiting for bytes)", false
	}
	names := []string{"initiator", "responder"}
	for i := 0; i < 2; i++ {
		if res[i] != "" {
			return names[i] + ": " + res[i], si.sawBacklog || sr.sawBacklog
		}
	}
	for i, want := range [][][]byte{rPT, iPT} {
		if len(got[i]) != len(want) {
			return fmt.Sprintf("%s read %d of %d records", names[i], len(got[i]), len(want)), false
		}
		for k := range want {
			if !bytes.Equal(got[i][k], want[k]) {
				return fmt.Sprintf("%s: record %d differs from what the peer wrote", names[i], k), false
			}
		}
	}
	return "", si.sawBacklog || sr.sawBacklog
}

func genCoalesce(rt *rapid.T) *coalesceCase {
	c := &coalesceCase{Cfg: genCleanCfg(rt)}
	lenGen := rapid.OneOf(rapid.IntRange(0, 40), rapid.IntRange(0, 3000), rapid.SampledFrom([]int{5000, 65535}))
	c.IWrites = rapid.SliceOfN(lenGen, 0, 4).Draw(rt, "i_writes")
	c.RWrites = rapid.SliceOfN(lenGen, 0, 4).Draw(rt, "r_writes")
	c.MaxRead = rapid.SliceOfN(rapid.SampledFrom([]int{0, 0, 0, 1, 2, 33, 100, 4096, 70000}), 1, 4).Draw(rt, "max_read")
	return c
}

func coalesceUnit(t *testing.T, prop, unit string) {
	rec := stats.New(t, prop, unit)
	var rc coalesceCase
	if stats.ReplayCase(unit, &rc) {
		if v, _ := runCoalesce(&rc); v != "" {
			rec.Violation(v, "coalesce", rc)
			t.Fatal(v)
		}
		return
	}
	if stats.ReplayMode() {
		t.Skip()
	}
	rapid.Check(t, func(rt *rapid.T) {
		c := genCoalesce(rt)
		rec.Current("coalesce", c)
		v, backlog := runCoalesce(c)
		var labels []string
		if backlog {
			labels = append(labels, "read_served_with_following_bytes_available")
		}
		// non-trivial: the party that reads the last handshake act finds the
		// peer's first records right behind it (XX: act 3 is read by the
		// responder, KK: act 2 by the initiator)
		behind := (c.Cfg.Pattern == "XX" && len(c.IWrites) > 0) || (c.Cfg.Pattern == "KK" && len(c.RWrites) > 0)
		if behind {
			labels = append(labels, "records_behind_last_act")
		}
		backlog = backlog && behind
		rec.Case(backlog, fmt.Sprintf("%+v", *c), labels...)
		if backlog && rec.WantSample() {
			rec.Sample(c)
		}
		if v != "" {
			rec.Pending(v, "coalesce", c)
			rt.Fatalf("%s", v)
		}
	})
	rec.Done()
}

// TestC16Coalesce: handshake outcome and record framing do not depend on how
// the transport groups bytes into reads.
func TestC16Coalesce(t *testing.T) { coalesceUnit(t, "C16", "TestC16Coalesce") }

// TestC15Coalesce: no byte written is lost, from the first write after the
// handshake on.
func TestC15Coalesce(t *testing.T) { coalesceUnit(t, "C15", "TestC15Coalesce") }
