package mboxprop

import (
	"bytes"
	"context"
	"fmt"
	"io"
	"net"
	"strings"
	"sync"
	"testing"
	"time"

	"github.com/lightninglabs/lightning-node-connect/mailbox"
	"pgregory.net/rapid"

	"verif/harness/relay"
	"verif/harness/stats"
)

// ---------- C11: every connection handed out is fresh (no Noise on top) ----------
//
// The connections returned by Server.Accept / Client.Dial are net.Conns in their
// own right. This unit uses them directly: per round both sides write some
// bytes, the peer reads only part of them, one side closes, and the next round
// runs on the connection handed out next. Oracle: what is read on a connection
// is a prefix of what the peer wrote on that same connection - nothing of an
// earlier connection (unread remainder, retransmission) shows up on a later one
// - and a new connection is never handed out while the previous one is open.

type rawRound struct {
	CWrite int    `json:"c_write"` // bytes the client writes
	SRead  int    `json:"s_read"`  // bytes of them the server reads (<= CWrite)
	SWrite int    `json:"s_write"`
	CRead  int    `json:"c_read"`
	Closer string `json:"closer"` // client | server
}

type c11RawCase struct {
	Seed   uint64     `json:"seed"`
	LatMs  int        `json:"lat_ms"`
	Rounds []rawRound `json:"rounds"`
}

type c11RawOutcome struct {
	violation    string
	inconclusive string
	rounds       int // rounds completed on distinct connections
	leftover     bool
	log          []string
	relayLog     []string // relay history, kept when a violation was found
}

func runC11Raw(c *c11RawCase) (out c11RawOutcome) {
	start := time.Now()
	logf := func(f string, a ...any) {
		if len(out.log) < 100 {
			out.log = append(out.log, fmt.Sprintf("%v ", time.Since(start).Round(time.Millisecond))+fmt.Sprintf(f, a...))
		}
	}
	r := relay.New(ms(c.LatMs))
	cliKey, srvKey := ecdhKey(c.Seed, "cli"), ecdhKey(c.Seed, "srv")
	pass := entropy(c.Seed, "pass", 14)
	cdS := mailbox.NewConnData(srvKey, nil, pass, nil, nil, nil)
	cdC := mailbox.NewConnData(cliKey, nil, pass, nil, nil, nil)
	srv, err := mailbox.VerifNewServer("relay", cdS, func(mailbox.ServerStatus) {}, r.Client("server"))
	if err != nil {
		out.violation = "server setup: " + err.Error()
		return
	}
	cctx, ccancel := context.WithCancel(context.Background())
	defer ccancel()
	cli, err := mailbox.NewClient(cctx, "relay", cdC, mailbox.VerifWithHashMailClient(r.Client("client")))
	if err != nil {
		out.violation = "client setup: " + err.Error()
		return
	}
	var mu sync.Mutex
	fail := func(f string, a ...any) {
		mu.Lock()
		if out.violation == "" {
			out.violation = fmt.Sprintf(f, a...)
		}
		mu.Unlock()
	}
	failed := func() bool { mu.Lock(); defer mu.Unlock(); return out.violation != "" }
	defer func() {
		if out.violation == "" {
			return
		}
		_, events := r.Snapshot()
		if len(events) > 600 {
			events = events[len(events)-600:]
		}
		for _, e := range events {
			out.relayLog = append(out.relayLog, fmt.Sprintf("relay %v %s ..%x %s len=%d %s %s", e.T.Round(time.Microsecond), e.Op, e.Stream[len(e.Stream)-1:], e.Who, e.Len, e.Head, e.Note))
		}
	}()

	acceptCh := make(chan *mailbox.ServerConn, 16)
	var srvWG sync.WaitGroup
	srvWG.Add(1)
	go func() {
		defer srvWG.Done()
		var prev <-chan struct{}
		for {
			conn, err := srv.Accept()
			if err != nil {
				te, isTemp := err.(interface{ Temporary() bool })
				if !(isTemp && te.Temporary()) && strings.Contains(err.Error(), "EOF") {
					return
				}
				time.Sleep(100 * time.Millisecond)
				continue
			}
			sc := conn.(*mailbox.ServerConn)
			if prev != nil {
				select {
				case <-prev:
				default:
					fail("Server.Accept returned a new connection while the previous one is still open")
				}
			}
			prev = sc.Done()
			acceptCh <- sc
		}
	}()
	defer func() {
		done := make(chan struct{})
		go func() { _ = srv.Close(); srvWG.Wait(); close(done) }()
		select {
		case <-done:
		case <-time.After(60 * time.Second):
		}
	}()

	// readN reads exactly n bytes (bounded in time); ok=false means the
	// connection failed or stalled, which ends the attempt.
	readN := func(conn net.Conn, n int) (b []byte, ok bool) {
		type res struct {
			b   []byte
			err error
		}
		ch := make(chan res, 1)
		go func() {
			buf := make([]byte, n)
			m, err := io.ReadFull(conn, buf)
			ch <- res{buf[:m], err}
		}()
		select {
		case x := <-ch:
			return x.b, x.err == nil
		case <-time.After(20 * time.Second):
			return nil, false
		}
	}
	var prevCli <-chan struct{}
	for ri, rd := range c.Rounds {
		done := false
		for attempt := 0; attempt < 8 && !done && !failed(); attempt++ {
			// ---- connect
			type dres struct {
				conn net.Conn
				err  error
			}
			dc := make(chan dres, 1)
			go func() {
				conn, err := cli.Dial(context.Background(), "")
				dc <- dres{conn, err}
			}()
			var cc *mailbox.ClientConn
			select {
			case d := <-dc:
				if d.err != nil {
					logf("round %d attempt %d: dial error %v", ri, attempt, d.err)
					continue
				}
				cc = d.conn.(*mailbox.ClientConn)
			case <-time.After(150 * time.Second):
				out.inconclusive = "Dial blocked for 150s (the session unit reports this)"
				return
			}
			if prevCli != nil {
				select {
				case <-prevCli:
				default:
					fail("Client.Dial returned a new connection while the previous one is still open")
				}
			}
			prevCli = cc.Done()
			var sc *mailbox.ServerConn
			select {
			case sc = <-acceptCh:
			case <-time.After(60 * time.Second):
				logf("round %d attempt %d: no accept within 60s", ri, attempt)
				closeWithin(30*time.Second, []string{"client"}, cc.Close)
				continue
			}
			// ---- transfer; every byte read must come from this connection
			pc := entropy(c.Seed, fmt.Sprintf("raw/c/%d/%d", ri, attempt), rd.CWrite)
			ps := entropy(c.Seed, fmt.Sprintf("raw/s/%d/%d", ri, attempt), rd.SWrite)
			okXfer := true
			check := func(who string, got, wrote []byte) {
				if !bytes.Equal(got, wrote[:len(got)]) {
					fail("round %d: the %s read %x on the connection handed out to it, but its peer wrote %x.. on that connection (bytes of an earlier connection, or altered)",
						ri, who, got, wrote[:minInt(len(wrote), len(got)+4)])
				}
			}
			if rd.CWrite > 0 {
				go func() { _, _ = cc.Write(pc) }()
			}
			if rd.SWrite > 0 {
				go func() { _, _ = sc.Write(ps) }()
			}
			if rd.SRead > 0 {
				got, ok := readN(sc, rd.SRead)
				check("server", got, pc)
				okXfer = okXfer && ok
			}
			if rd.CRead > 0 && okXfer {
				got, ok := readN(cc, rd.CRead)
				check("client", got, ps)
				okXfer = okXfer && ok
			}
			if okXfer {
				done = true
				out.rounds++
				if rd.SRead < rd.CWrite || rd.CRead < rd.SWrite {
					out.leftover = true
				}
			} else {
				logf("round %d attempt %d: connection failed during the transfer", ri, attempt)
			}
			// give unread bytes time to arrive in the reader's buffers
			time.Sleep(ms(4*c.LatMs + 50))
			// ---- close: first the closer, then the other side
			first, second := net.Conn(cc), net.Conn(sc)
			names := []string{"client", "server"}
			if rd.Closer == "server" {
				first, second = sc, cc
				names = []string{"server", "client"}
			}
			if hung := closeWithin(60*time.Second, names[:1], first.Close); len(hung) > 0 {
				out.inconclusive = "Close did not return within 60s (the session unit reports this)"
				return
			}
			time.Sleep(ms(2*c.LatMs + 20))
			if hung := closeWithin(60*time.Second, names[1:], second.Close); len(hung) > 0 {
				out.inconclusive = "Close did not return within 60s (the session unit reports this)"
				return
			}
			for _, ch := range []<-chan struct{}{cc.Done(), sc.Done()} {
				select {
				case <-ch:
				case <-time.After(60 * time.Second):
					out.inconclusive = "Done not closed 60s after Close (the session unit reports this)"
					return
				}
			}
		}
	}
	return
}

func minInt(a, b int) int {
	if a < b {
		return a
	}
	return b
}

func genC11Raw(t *rapid.T) *c11RawCase {
	c := &c11RawCase{Seed: rapid.Uint64().Draw(t, "seed"), LatMs: rapid.SampledFrom([]int{0, 1, 20}).Draw(t, "lat")}
	n := rapid.IntRange(2, 4).Draw(t, "rounds")
	for i := 0; i < n; i++ {
		var rd rawRound
		rd.CWrite = rapid.SampledFrom([]int{0, 1, 10, 40, 300}).Draw(t, "c_write")
		rd.SWrite = rapid.SampledFrom([]int{0, 1, 10, 40, 300}).Draw(t, "s_write")
		rd.SRead = rapid.SampledFrom([]int{0, 1, rd.CWrite / 2, rd.CWrite}).Draw(t, "s_read")
		rd.CRead = rapid.SampledFrom([]int{0, 1, rd.SWrite / 2, rd.SWrite}).Draw(t, "c_read")
		if rd.SRead > rd.CWrite {
			rd.SRead = rd.CWrite
		}
		if rd.CRead > rd.SWrite {
			rd.CRead = rd.SWrite
		}
		rd.Closer = rapid.SampledFrom([]string{"client", "server"}).Draw(t, "closer")
		c.Rounds = append(c.Rounds, rd)
	}
	return c
}

func TestC11RawFresh(t *testing.T) {
	const unit = "TestC11RawFresh"
	rec := stats.New(t, "C11", unit)
	var rc c11RawCase
	if stats.ReplayCase(unit, &rc) {
		for i := 0; i < 2; i++ {
			if o := runC11Raw(&rc); o.violation != "" {
				rec.Violation(o.violation, "c11raw", rc)
				t.Fatalf("%s\n%s", o.violation, strings.Join(o.log, "\n"))
			}
		}
		return
	}
	if stats.ReplayMode() {
		t.Skip()
	}
	const batch = 40
	rapid.Check(t, func(rt *rapid.T) {
		cases := make([]*c11RawCase, batch)
		for i := range cases {
			cases[i] = genC11Raw(rt)
		}
		outs := make([]c11RawOutcome, batch)
		var wg sync.WaitGroup
		for i := range cases {
			i := i
			wg.Add(1)
			go func() {
				defer wg.Done()
				outs[i] = runC11Raw(cases[i])
			}()
		}
		wg.Wait()
		for i, o := range outs {
			labels := []string{"raw_session"}
			if o.rounds >= 2 {
				labels = append(labels, "raw_reconnected")
			}
			if o.leftover {
				labels = append(labels, "raw_unread_bytes_left_at_close")
			}
			if o.inconclusive != "" {
				rec.Inconclusive("%s", o.inconclusive)
				labels = append(labels, "raw_inconclusive")
			}
			rec.Case(o.rounds >= 2 && o.leftover, fmt.Sprintf("%+v", *cases[i]), labels...)
			if o.rounds >= 2 && rec.WantSample() {
				rec.Sample(cases[i])
			}
		}
		reruns := 0
		for i, o := range outs {
			if o.violation == "" {
				continue
			}
			// as in the session unit: a report must show again when the
			// session is run on its own
			confirmed := o
			ok := false
			for try := 0; try < 3 && !ok && reruns < 4; try++ {
				reruns++
				if again := runC11Raw(cases[i]); again.violation != "" {
					confirmed, ok = again, true
				}
			}
			if !ok {
				p := rec.WriteReplay("c11raw-unconfirmed", struct {
					*c11RawCase
					Msg string   `json:"unconfirmed_violation"`
					Log []string `json:"log"`
				}{cases[i], o.violation, append(o.log, o.relayLog...)})
				rec.Inconclusive("unconfirmed (seen once among 40 concurrent sessions, not when re-run alone three times): %s [%s]", o.violation, p)
				rec.Label("unconfirmed_observation", 1)
				continue
			}
			rec.Pending(confirmed.violation, "c11raw", struct {
				*c11RawCase
				Log []string `json:"log"`
			}{cases[i], append(confirmed.log, confirmed.relayLog...)})
			rt.Fatalf("%s", confirmed.violation)
		}
	})
	rec.Done()
}
