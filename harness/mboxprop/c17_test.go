package mboxprop

import (
	"bytes"
	"context"
	"crypto/sha512"
	"errors"
	"fmt"
	"testing"
	"time"

	"github.com/btcsuite/btcd/btcec/v2"
	"github.com/lightninglabs/lightning-node-connect/mailbox"
	"github.com/lightningnetwork/lnd/aezeed"
	"github.com/lightningnetwork/lnd/keychain"
	"pgregory.net/rapid"

	"verif/harness/stats"
	"verif/harness/vnet"
)

type c17Case struct {
	Kind    string   `json:"kind"`
	Entropy string   `json:"entropy,omitempty"`
	Words   []string `json:"words,omitempty"`
	SeedA   uint64   `json:"seed_a,omitempty"`
	SeedB   uint64   `json:"seed_b,omitempty"`
}

// mask110 clears the two unused low bits of the last byte.
func mask110(e [14]byte) [14]byte {
	e[13] &^= 0x03
	return e
}

func checkEntropy(e [14]byte) string {
	words, err := mailbox.PassphraseEntropyToMnemonic(e)
	if err != nil {
		return fmt.Sprintf("EntropyToMnemonic(%x) failed: %v", e, err)
	}
	back := mailbox.PassphraseMnemonicToEntropy(words)
	if back != mask110(e) {
		return fmt.Sprintf("MnemonicToEntropy(EntropyToMnemonic(%x)) = %x, want %x (110 significant bits)", e, back, mask110(e))
	}
	words2, err := mailbox.PassphraseEntropyToMnemonic(back)
	if err != nil || words2 != words {
		return fmt.Sprintf("re-encoding the canonical entropy %x gives different words", back)
	}
	return ""
}

func checkWords(w [10]string) string {
	e := mailbox.PassphraseMnemonicToEntropy(w)
	w2, err := mailbox.PassphraseEntropyToMnemonic(e)
	if err != nil {
		return fmt.Sprintf("EntropyToMnemonic failed for words %v: %v", w, err)
	}
	if w2 != w {
		return fmt.Sprintf("EntropyToMnemonic(MnemonicToEntropy(%v)) = %v", w, w2)
	}
	if e[13]&0x03 != 0 {
		return fmt.Sprintf("MnemonicToEntropy(%v) sets unused low bits: %x", w, e)
	}
	return ""
}

func sidOf(cd *mailbox.ConnData) ([64]byte, string) {
	s, err := cd.SID()
	if err != nil {
		return s, "SID() failed: " + err.Error()
	}
	return s, ""
}

// checkSIDs: SID agreement between the two parties for a pass phrase and for a
// key pair, direction split, and difference from the other secret's SID.
func checkSIDs(seedA, seedB uint64) string {
	passA := entropy(seedA, "pass", 14)
	passB := entropy(seedB, "pass", 14)
	cli := ecdhKey(seedA, "cli")
	srv := ecdhKey(seedA, "srv")
	noop1 := func(*btcec.PublicKey) error { return nil }
	noop2 := func([]byte) error { return nil }
	// The two parties' own callbacks call back into their ConnData, which
	// SetRemote / SetAuthData explicitly allow (they run the callback without
	// holding the lock "since we don't know what will be called in this
	// callback"): an application that logs or retires the pairing session
	// from the callback reads SID() at that very moment.
	var cdC, cdS *mailbox.ConnData
	reenter := func(cd **mailbox.ConnData) (func(*btcec.PublicKey) error, func([]byte) error) {
		touch := func() {
			if c := *cd; c != nil {
				_, _ = c.SID()
				_ = c.RemoteKey()
				_ = c.AuthData()
				_ = c.HandshakePattern()
			}
		}
		return func(*btcec.PublicKey) error { touch(); return nil }, func([]byte) error { touch(); return nil }
	}
	c1, c2 := reenter(&cdC)
	s1, s2 := reenter(&cdS)
	cdC = mailbox.NewConnData(cli, nil, passA, nil, c1, c2)
	cdS = mailbox.NewConnData(srv, nil, passA, []byte("auth"), s1, s2)
	sc, e1 := sidOf(cdC)
	ss, e2 := sidOf(cdS)
	if e1+e2 != "" {
		return e1 + e2
	}
	if sc != ss {
		return "client and server derive different SIDs from the same passphrase"
	}
	if cdC.HandshakePattern().Name != mailbox.XX || cdS.HandshakePattern().Name != mailbox.XX {
		return "first pairing does not use the XX pattern"
	}
	if !bytes.Equal(passA, passB) {
		cdO := mailbox.NewConnData(cli, nil, passB, nil, noop1, noop2)
		so, _ := sidOf(cdO)
		if so == sc {
			return "two different passphrases give the same SID"
		}
	}
	// nearby secrets: every single-bit change of the 110 significant bits
	// (what a phrase differing in one word can produce) is a different secret
	// and must give a different identifier
	seen := map[[64]byte]int{sc: -1}
	for bit := 0; bit < 110; bit++ {
		near := append([]byte(nil), passA...)
		near[bit/8] ^= 1 << uint(7-bit%8)
		sn, _ := sidOf(mailbox.NewConnData(cli, nil, near, nil, noop1, noop2))
		if other, dup := seen[sn]; dup {
			return fmt.Sprintf("passphrases that differ in entropy bit %d (and %d) give the same SID", bit, other)
		}
		seen[sn] = bit
	}
	// directions
	s2c := mailbox.GetSID(sc, true)
	c2s := mailbox.GetSID(sc, false)
	if s2c == c2s {
		return "the two directions share a stream id"
	}
	diff := 0
	for i := range s2c {
		if s2c[i] != c2s[i] {
			diff++
			if i != 63 || s2c[i]^c2s[i] != 0x01 {
				return "the two stream ids differ in more than the last bit"
			}
		}
	}
	if diff != 1 {
		return "the two stream ids do not differ in exactly the last bit"
	}
	// after key exchange
	if err := cdC.SetRemote(srv.PubKey()); err != nil {
		return err.Error()
	}
	if err := cdS.SetRemote(cli.PubKey()); err != nil {
		return err.Error()
	}
	kc, e1 := sidOf(cdC)
	ks, e2 := sidOf(cdS)
	if e1+e2 != "" {
		return e1 + e2
	}
	if kc != ks {
		return "client and server derive different SIDs after exchanging static keys"
	}
	if kc == sc {
		return "the key-derived SID equals the passphrase SID"
	}
	if cdC.HandshakePattern().Name != mailbox.KK || cdS.HandshakePattern().Name != mailbox.KK {
		return "after the key exchange the pattern is not KK"
	}
	// a different key pair gives a different SID
	other := ecdhKey(seedB, "cli")
	if !other.PubKey().IsEqual(cli.PubKey()) {
		cdX := mailbox.NewConnData(other, srv.PubKey(), passA, nil, noop1, noop2)
		kx, _ := sidOf(cdX)
		if kx == kc {
			return "different client keys give the same key-derived SID"
		}
	}
	// a static key whose ECDH operation fails (locked wallet, remote signer
	// down): nobody can compute the secret, so there is no identifier to
	// derive. SID() has to report that; if it returns a value all the same,
	// that value must still not be shared by an unrelated pair of keys.
	f1 := mailbox.NewConnData(&failingKey{SingleKeyECDH: cli}, srv.PubKey(), passA, nil, noop1, noop2)
	f2 := mailbox.NewConnData(&failingKey{SingleKeyECDH: ecdhKey(seedB^0x5bd1e995, "cli2")}, ecdhKey(seedB, "srv2").PubKey(), passB, nil, noop1, noop2)
	v1, err1 := f1.SID()
	v2, err2 := f2.SID()
	if err1 == nil && err2 == nil && v1 == v2 {
		return "two unrelated key pairs whose ECDH operation fails get the same SID (and no error): different secrets must give different identifiers"
	}
	if err1 == nil && v1 == kc {
		return "a ConnData whose ECDH operation fails reports the SID of the working key pair"
	}
	return ""
}

// failingKey is a static key whose private-key operation is unavailable.
type failingKey struct {
	keychain.SingleKeyECDH
}

func (k *failingKey) ECDH(*btcec.PublicKey) ([32]byte, error) {
	return [32]byte{}, errors.New("signer unavailable")
}

// checkSIDsAfterPairing: the identifiers after a real first pairing at the
// negotiated handshake version v (the server's maximum): both parties derive
// the same one - the key-derived one from version 2 on, still the passphrase
// one below (no key is exchanged there) - and agree on the next pattern.
func checkSIDsAfterPairing(seed uint64) string {
	for v := 0; v <= 2; v++ {
		cfg := hsConfig{Pattern: "XX", IMin: 0, IMax: 2, RMin: 0, RMax: v, Seed: seed + uint64(v), AuthLen: 20, PassMode: "same"}
		p, err := established(cfg)
		if err != nil {
			return err.Error()
		}
		before := sha512.Sum512(p.passI)
		si, e1 := sidOf(p.I.cd)
		sr, e2 := sidOf(p.R.cd)
		if e1+e2 != "" {
			return e1 + e2
		}
		if si != sr {
			return fmt.Sprintf("after a first pairing at handshake version %d (client supports 0..2, server 0..%d) client and server derive different SIDs: the client's send stream is no longer the server's receive stream", v, v)
		}
		if v >= 2 && si == before {
			return "after a version-2 pairing the SID is still the passphrase SID"
		}
		if v < 2 && si != before {
			return fmt.Sprintf("after a version-%d pairing (no static keys exchanged) the SID is no longer the passphrase SID", v)
		}
		if p.I.cd.HandshakePattern().Name != p.R.cd.HandshakePattern().Name {
			return fmt.Sprintf("after a version-%d pairing the parties disagree on the next handshake pattern", v)
		}
	}
	return ""
}

func runC17(c c17Case) string {
	switch c.Kind {
	case "entropy":
		var e [14]byte
		copy(e[:], unhex(c.Entropy))
		return checkEntropy(e)
	case "words":
		var w [10]string
		copy(w[:], c.Words)
		return checkWords(w)
	case "sid":
		if v := checkSIDs(c.SeedA, c.SeedB); v != "" {
			return v
		}
		// one in eight SID cases also runs real pairings (three handshakes)
		if c.SeedA%8 == 0 {
			return checkSIDsAfterPairing(c.SeedA)
		}
		return ""
	case "new":
		w, e, err := mailbox.NewPassphraseEntropy()
		if err != nil {
			return err.Error()
		}
		if mailbox.PassphraseMnemonicToEntropy(w) != e {
			return "NewPassphraseEntropy returned words and entropy that do not match"
		}
		if v := checkWords(w); v != "" {
			return v
		}
		return checkEntropy(e)
	}
	return ""
}

func TestC17Codec(t *testing.T) {
	const unit = "TestC17Codec"
	rec := stats.New(t, "C17", unit)
	var rc c17Case
	if stats.ReplayCase(unit, &rc) {
		if v := runC17(rc); v != "" {
			rec.Violation(v, "c17", rc)
			t.Fatal(v)
		}
		return
	}
	if stats.ReplayMode() {
		t.Skip()
	}
	// fixed patterns first
	pats := [][14]byte{{}, {0xff, 0xff, 0xff, 0xff, 0xff, 0xff, 0xff, 0xff, 0xff, 0xff, 0xff, 0xff, 0xff, 0xff}}
	for i := 0; i < 112; i++ {
		var e [14]byte
		e[i/8] = 1 << (7 - i%8)
		pats = append(pats, e)
	}
	for _, e := range pats {
		c := c17Case{Kind: "entropy", Entropy: fmt.Sprintf("%x", e)}
		rec.Case(e[13]&3 != 0, c.Entropy, "entropy_pattern")
		if v := runC17(c); v != "" {
			rec.Violation(v, "c17", c)
			t.Fatal(v)
		}
	}
	for _, idx := range []int{0, len(aezeed.DefaultWordList) - 1} {
		var w [10]string
		for i := range w {
			w[i] = aezeed.DefaultWordList[idx]
		}
		c := c17Case{Kind: "words", Words: w[:]}
		rec.Case(true, fmt.Sprint(w), "words_pattern")
		if v := runC17(c); v != "" {
			rec.Violation(v, "c17", c)
			t.Fatal(v)
		}
	}
	rapid.Check(t, func(rt *rapid.T) {
		var c c17Case
		switch rapid.IntRange(0, 3).Draw(rt, "kind") {
		case 0:
			e := rapid.SliceOfN(rapid.Byte(), 14, 14).Draw(rt, "entropy")
			c = c17Case{Kind: "entropy", Entropy: fmt.Sprintf("%x", e)}
			rec.Case(e[13]&3 != 0, c.Entropy, "entropy_random")
		case 1:
			var w []string
			for i := 0; i < 10; i++ {
				w = append(w, aezeed.DefaultWordList[rapid.IntRange(0, len(aezeed.DefaultWordList)-1).Draw(rt, "w")])
			}
			c = c17Case{Kind: "words", Words: w}
			rec.Case(true, fmt.Sprint(w), "words_random")
		case 2:
			c = c17Case{Kind: "sid", SeedA: rapid.Uint64().Draw(rt, "a"), SeedB: rapid.Uint64().Draw(rt, "b")}
			rec.Case(true, fmt.Sprint(c.SeedA, c.SeedB), "sid_pair")
		default:
			c = c17Case{Kind: "new"}
			rec.Case(false, nil, "new_passphrase")
		}
		if rec.WantSample() {
			rec.Sample(c)
		}
		if v := runC17(c); v != "" {
			rec.Pending(v, "c17", c)
			rt.Fatalf("%s", v)
		}
	})
	rec.Done()
}

// TestC17Streams: the stream the client sends on is the one the server
// receives on and vice versa, observed at the relay and through
// LocalAddr/RemoteAddr; the two directions never share a stream.
func TestC17Streams(t *testing.T) {
	const unit = "TestC17Streams"
	rec := stats.New(t, "C17", unit)
	refreshed := 0
	run := func(seed uint64, refreshes int) string {
		var v string
		refreshed = 0
		bo := vnet.InBubble(t, 60*time.Second, func() {
			p, err := newMailboxPair(seed, 0)
			if err != nil {
				v = err.Error()
				return
			}
			defer p.Close()
			cl, cr := p.C.LocalAddr().(*mailbox.Addr).SID, p.C.RemoteAddr().(*mailbox.Addr).SID
			sl, sr := p.S.LocalAddr().(*mailbox.Addr).SID, p.S.RemoteAddr().(*mailbox.Addr).SID
			if cl != sr {
				v = "the client's send stream is not the server's receive stream"
				return
			}
			if cr != sl {
				v = "the client's receive stream is not the server's send stream"
				return
			}
			if cl == cr {
				v = "both directions share one stream"
				return
			}
			if cl != mailbox.GetSID(p.SID, false) || cr != mailbox.GetSID(p.SID, true) {
				v = "stream ids are not the ones derived from the SID"
				return
			}
			// push one message each way and look at what the relay saw
			go func() { _, _ = p.C.Write([]byte("c2s-payload")) }()
			go func() { _, _ = p.S.Write([]byte("s2c-payload")) }()
			buf := make([]byte, 64)
			if n, err := p.S.Read(buf); err != nil || string(buf[:n]) != "c2s-payload" {
				v = fmt.Sprintf("server read %q, %v", buf[:n], err)
				return
			}
			if n, err := p.C.Read(buf); err != nil || string(buf[:n]) != "s2c-payload" {
				v = fmt.Sprintf("client read %q, %v", buf[:n], err)
				return
			}
			checkEvents := func(when string) {
				_, events := p.R.Snapshot()
				for _, e := range events {
					switch {
					case e.Op == "send" && e.Who == "client" && e.Stream != string(cl[:]):
						v = "the client sent on a stream other than its send stream " + when
					case e.Op == "send" && e.Who == "server" && e.Stream != string(sl[:]):
						v = "the server sent on a stream other than its send stream " + when
					case e.Op == "recv" && e.Who == "client" && e.Stream != string(cr[:]):
						v = "the client received from a stream other than its receive stream " + when
					case e.Op == "recv" && e.Who == "server" && e.Stream != string(sr[:]):
						v = "the server received from a stream other than its receive stream " + when
					}
				}
			}
			checkEvents("(first connection)")
			// The same assignment must hold on every later connection of the
			// session, which Client.Dial / Server.Accept build with
			// RefreshClientConn / RefreshServerConn.
			for round := 1; round <= refreshes && v == ""; round++ {
				when := fmt.Sprintf("(connection %d of the session, after %d refresh(es))", round+1, round)
				_ = p.C.Close()
				_ = p.S.Close()
				type res struct {
					c   *mailbox.ClientConn
					s   *mailbox.ServerConn
					err error
				}
				rc, rs := make(chan res, 1), make(chan res, 1)
				go func() { c2, err := mailbox.RefreshClientConn(context.Background(), p.C); rc <- res{c: c2, err: err} }()
				go func() { s2, err := mailbox.RefreshServerConn(p.S); rs <- res{s: s2, err: err} }()
				var c2 *mailbox.ClientConn
				var s2 *mailbox.ServerConn
				to := time.After(30 * time.Second)
				for got := 0; got < 2; {
					select {
					case x := <-rc:
						c2, got = x.c, got+1
					case x := <-rs:
						s2, got = x.s, got+1
					case <-to:
						got = 2
					}
				}
				checkEvents(when)
				if v != "" || c2 == nil || s2 == nil {
					// (a second connection that is not established within 30
					// virtual seconds is C11's subject)
					return
				}
				p.C, p.S = c2, s2
				if c2.LocalAddr().(*mailbox.Addr).SID != cl || c2.RemoteAddr().(*mailbox.Addr).SID != cr ||
					s2.LocalAddr().(*mailbox.Addr).SID != sl || s2.RemoteAddr().(*mailbox.Addr).SID != sr {
					v = "stream ids changed " + when
					return
				}
				refreshed = round
			}
		})
		if bo.Panic != "" && !bo.Deadlock && v == "" {
			v = "panic: " + bo.Panic
		}
		return v
	}
	var rc struct {
		Seed      uint64 `json:"seed"`
		Refreshes int    `json:"refreshes"`
	}
	if stats.ReplayCase(unit, &rc) {
		if v := run(rc.Seed, rc.Refreshes); v != "" {
			rec.Violation(v, "streams", rc)
			t.Fatal(v)
		}
		return
	}
	if stats.ReplayMode() {
		t.Skip()
	}
	rapid.Check(t, func(rt *rapid.T) {
		seed := rapid.Uint64().Draw(rt, "seed")
		refreshes := rapid.IntRange(0, 3).Draw(rt, "refreshes")
		v := run(seed, refreshes)
		rec.Case(true, fmt.Sprintf("%d/%d", seed, refreshes), "live_pair_streams", fmt.Sprintf("connections_checked_%d", refreshed+1))
		if rec.WantSample() {
			rec.Sample(map[string]any{"seed": seed, "refreshes": refreshes})
		}
		if v != "" {
			rec.Pending(v, "streams", map[string]any{"seed": seed, "refreshes": refreshes})
			rt.Fatalf("%s", v)
		}
	})
	rec.Done()
}
