package mboxprop

import (
	"bytes"
	"errors"
	"fmt"
	"net"
	"strings"
	"testing"
	"time"

	"github.com/lightninglabs/lightning-node-connect/mailbox"
	"pgregory.net/rapid"

	"verif/harness/stats"
	"verif/harness/vnet"
)

type c15Case struct {
	Kind   string `json:"kind"` // grpc | tcp | mailbox
	Seed   uint64 `json:"seed"`
	KK     bool   `json:"kk"`
	Dir    int    `json:"dir"`    // 0: client writes
	Writes []int  `json:"writes"` // write sizes
	Bufs   []int  `json:"bufs"`   // read buffer sizes, cycled
	// Refreshes (mailbox only): the transfer runs on the (1+Refreshes)-th
	// connection of the session.
	Refreshes int `json:"refreshes,omitempty"`
}

type c15Outcome struct {
	violation string
	smallBuf  bool // some read buffer was smaller than the pending record
	oversize  bool
	zeroWrite bool
	// notEstablished: a refreshed connection did not come up
	notEstablished bool
}

// streamTransfer writes the given sizes on w and reads them back on r with the
// given buffer sizes. Writer and reader run concurrently (the in-memory pipes
// are unbounded, the mailbox conn has a window).
func streamTransfer(kind string, w, r net.Conn, seed uint64, writes, bufs []int) (out c15Outcome) {
	var want []byte
	type wres struct{ v string }
	wdone := make(chan wres, 1)
	payloads := make([][]byte, len(writes))
	for i, l := range writes {
		payloads[i] = entropy(seed, fmt.Sprintf("w/%d", i), l)
		if l == 0 {
			out.zeroWrite = true
		}
		if kind == "grpc" && l > 65535 {
			out.oversize = true
			continue // must be rejected, contributes nothing
		}
		want = append(want, payloads[i]...)
	}
	go func() {
		for i, p := range payloads {
			n, err := safeConnWrite(w, p)
			if isPanic(err) {
				wdone <- wres{fmt.Sprintf("Write #%d (%d bytes) panicked: %v", i, len(p), err)}
				return
			}
			if kind == "grpc" && len(p) > 65535 {
				if err == nil || n != 0 {
					wdone <- wres{fmt.Sprintf("Write of %d bytes (> one record) returned %d, %v; want 0 and an error", len(p), n, err)}
					return
				}
				if !errors.Is(err, mailbox.ErrMaxMessageLengthExceeded) {
					wdone <- wres{fmt.Sprintf("Write of %d bytes returned error %v, want ErrMaxMessageLengthExceeded", len(p), err)}
					return
				}
				continue
			}
			if err != nil {
				wdone <- wres{fmt.Sprintf("Write #%d (%d bytes) failed: %v", i, len(p), err)}
				return
			}
			if n != len(p) {
				wdone <- wres{fmt.Sprintf("Write #%d of %d bytes returned %d without error (short write)", i, len(p), n)}
				return
			}
		}
		wdone <- wres{}
	}()
	var got []byte
	bi := 0
	deadline := time.Now().Add(120 * time.Second)
	zeroReads := 0
	for len(got) < len(want) {
		if time.Now().After(deadline) {
			out.violation = fmt.Sprintf("transfer incomplete after 120s: read %d of %d bytes", len(got), len(want))
			return
		}
		size := 1
		if len(bufs) > 0 {
			size = bufs[bi%len(bufs)]
			bi++
		}
		if size < 1 {
			size = 1
		}
		// poison the buffer tail so that writes beyond len(buf) show
		back := make([]byte, size+64)
		for i := range back {
			back[i] = 0xA5
		}
		buf := back[:size:size]
		type rres struct {
			n   int
			err error
		}
		rc := make(chan rres, 1)
		go func() {
			n, err := safeConnRead(r, buf)
			rc <- rres{n, err}
		}()
		var rr rres
		select {
		case rr = <-rc:
		case <-time.After(60 * time.Second):
			out.violation = fmt.Sprintf("Read blocked for 60s with %d of %d bytes read", len(got), len(want))
			return
		}
		if isPanic(rr.err) {
			out.violation = fmt.Sprintf("Read with a %d byte buffer panicked: %v", size, rr.err)
			return
		}
		if rr.n < 0 || rr.n > size {
			out.violation = fmt.Sprintf("Read with a %d byte buffer reported %d bytes", size, rr.n)
			return
		}
		if !bytes.Equal(back[size:], bytes.Repeat([]byte{0xA5}, 64)) {
			out.violation = fmt.Sprintf("Read wrote beyond its %d byte buffer", size)
			return
		}
		if rr.err != nil {
			out.violation = fmt.Sprintf("Read returned error %q after %d of %d bytes although the peer is open and has written everything", rr.err, len(got), len(want))
			return
		}
		if rr.n == 0 {
			zeroReads++
			if zeroReads > len(writes)+5 {
				out.violation = "Read keeps returning 0, nil"
				return
			}
		}
		got = append(got, buf[:rr.n]...)
		if len(got) <= len(want) && !bytes.Equal(got[len(got)-rr.n:], want[len(got)-rr.n:len(got)]) {
			out.violation = fmt.Sprintf("bytes read differ from bytes written at offset %d (buffer %d)", len(got)-rr.n, size)
			return
		}
	}
	if len(got) > len(want) {
		out.violation = fmt.Sprintf("read %d bytes, only %d were written", len(got), len(want))
		return
	}
	select {
	case wr := <-wdone:
		if wr.v != "" {
			out.violation = wr.v
		}
	case <-time.After(60 * time.Second):
		out.violation = "writer still blocked after everything was read"
	}
	return
}

func runC15(t *testing.T, c *c15Case) (out c15Outcome) {
	maxW := 0
	for _, w := range c.Writes {
		if w > maxW {
			maxW = w
		}
	}
	for _, b := range c.Bufs {
		if b < maxW {
			out.smallBuf = true
		}
	}
	if c.Kind == "mailbox" {
		bo := vnet.InBubble(t, 120*time.Second, func() {
			p, err := newMailboxPair(c.Seed, 0)
			if err != nil {
				out.violation = err.Error()
				return
			}
			for i := 0; i < c.Refreshes; i++ {
				if !p.Refresh(60 * time.Second) {
					// (establishing a later connection is C11's subject)
					out.notEstablished = true
					p.Close()
					return
				}
			}
			var w, r net.Conn = p.C, p.S
			if c.Dir == 1 {
				w, r = p.S, p.C
			}
			o := streamTransfer(c.Kind, w, r, c.Seed, c.Writes, c.Bufs)
			out.violation, out.zeroWrite, out.oversize = o.violation, o.zeroWrite, o.oversize
			if c.Refreshes > 0 && (strings.Contains(o.violation, "Read returned error") || strings.Contains(o.violation, "failed:")) {
				// A later connection of a session can be killed right after
				// its handshake by what the previous one left in the relay
				// streams (a second SYN reply, a FIN): the recorded C10
				// findings; Client.Dial / Server.Accept then simply build the
				// next one (C11). A connection that fails visibly carries no
				// stream to judge.
				out.violation, out.notEstablished = "", true
			}
			if debugMbox && o.violation != "" {
				_, events := p.R.Snapshot()
				for _, e := range events {
					fmt.Printf("DBG relay %v %s %x.. %s len=%d %s\n", e.T, e.Op, e.Stream[len(e.Stream)-2:], e.Who, e.Len, e.Note)
				}
			}
			p.Close()
		})
		if bo.Panic != "" && !bo.Deadlock && out.violation == "" {
			out.violation = "panic: " + bo.Panic
		}
		return
	}
	p, err := newConnPair(c.Kind, c.Seed, c.KK, 32)
	if err != nil {
		out.violation = err.Error()
		return
	}
	defer p.Close()
	w, r := p.C, p.S
	if c.Dir == 1 {
		w, r = p.S, p.C
	}
	o := streamTransfer(c.Kind, w, r, c.Seed, c.Writes, c.Bufs)
	out.violation, out.zeroWrite, out.oversize = o.violation, o.zeroWrite, o.oversize
	return
}

func genC15(t *rapid.T, kind string) *c15Case {
	c := &c15Case{Kind: kind, Seed: rapid.Uint64().Draw(t, "seed"), KK: rapid.Bool().Draw(t, "kk"), Dir: rapid.IntRange(0, 1).Draw(t, "dir")}
	big := []int{32767, 32768, 32769, 65535}
	if kind == "tcp" {
		big = append(big, 65536, 65537, 131070, 200000, 300*1024)
	}
	if kind == "grpc" {
		big = append(big, 65536, 70000) // must be rejected
	}
	if kind == "mailbox" {
		big = []int{32768, 65535, 100000}
	}
	wg := rapid.OneOf(rapid.SampledFrom([]int{0, 1, 1, 2, 17}), rapid.IntRange(0, 300), rapid.IntRange(0, 5000), rapid.SampledFrom(big))
	c.Writes = rapid.SliceOfN(wg, 1, 10).Draw(t, "writes")
	total := 0
	for _, w := range c.Writes {
		total += w
	}
	// with many tiny buffers a big transfer is needlessly slow: pick the
	// buffer menu according to the volume
	menu := []int{1, 2, 3, 7, 64, 1000, 32767, 32768, 32769, 65535, 65536, 70000}
	if total > 20000 {
		menu = []int{97, 1000, 4096, 32767, 32768, 32769, 65535, 65536, 70000}
	}
	c.Bufs = rapid.SliceOfN(rapid.SampledFrom(menu), 1, 6).Draw(t, "bufs")
	if kind == "mailbox" {
		c.Refreshes = rapid.SampledFrom([]int{0, 0, 1, 2}).Draw(t, "refreshes")
	}
	return c
}

func testC15(t *testing.T, unit, kind string) {
	rec := stats.New(t, "C15", unit)
	var rc c15Case
	if stats.ReplayCase(unit, &rc) {
		if o := runC15(t, &rc); o.violation != "" {
			rec.Violation(o.violation, "c15", rc)
			t.Fatal(o.violation)
		}
		return
	}
	if stats.ReplayMode() {
		t.Skip()
	}
	rapid.Check(t, func(rt *rapid.T) {
		c := genC15(rt, kind)
		rec.Current("c15", c)
		o := runC15(t, c)
		var labels []string
		if o.smallBuf {
			labels = append(labels, "buffer_smaller_than_record")
		}
		if o.zeroWrite {
			labels = append(labels, "zero_length_write")
		}
		if o.oversize {
			labels = append(labels, "oversize_write_rejected")
		}
		if c.Refreshes > 0 && !o.notEstablished {
			labels = append(labels, "later_connection_of_the_session")
		}
		if o.notEstablished {
			labels = append(labels, "later_connection_not_established")
		}
		rec.Case(o.smallBuf, fmt.Sprintf("%+v", *c), labels...)
		if o.smallBuf && rec.WantSample() {
			rec.Sample(c)
		}
		if o.violation != "" {
			rec.Pending(o.violation, "c15", c)
			rt.Fatalf("%s", o.violation)
		}
	})
	rec.Done()
}

// sweepLengths is every length up to 1100 and the neighbourhood of every power
// of two up to the record limit.
func sweepLengths(max int) []int {
	var l []int
	for i := 0; i <= 1100; i++ {
		l = append(l, i)
	}
	for e := 11; e <= 17; e++ {
		for d := -2; d <= 2; d++ {
			if v := (1 << e) + d; v <= max {
				l = append(l, v)
			}
		}
	}
	return l
}

// TestC15LengthSweep: one session per connection type and direction through
// which every write length of the sweep passes once, read back with a cycle of
// buffer sizes. A path that only misbehaves for a few particular lengths (an
// internal buffer boundary, a fast path) cannot hide from it.
func TestC15LengthSweep(t *testing.T) {
	const unit = "TestC15LengthSweep"
	rec := stats.New(t, "C15", unit)
	var rc c15Case
	if stats.ReplayCase(unit, &rc) {
		if o := runC15(t, &rc); o.violation != "" {
			rec.Violation(o.violation, "c15", rc)
			t.Fatal(o.violation)
		}
		return
	}
	if stats.ReplayMode() {
		t.Skip()
	}
	nviol := 0
	for _, kind := range []string{"grpc", "tcp", "mailbox"} {
		for dir := 0; dir < 2; dir++ {
			max := 65535
			if kind == "tcp" {
				max = 140000
			}
			c := &c15Case{Kind: kind, Seed: stats.Seed() + uint64(dir), Dir: dir, Writes: sweepLengths(max),
				Bufs: []int{4096, 1, 70000, 7, 1000, 32768, 3}}
			rec.Current("c15", c)
			o := runC15(t, c)
			rec.CaseN(int64(len(c.Writes)), int64(len(c.Writes)), fmt.Sprintf("sweep/%s/%d", kind, dir), "length_sweep_"+kind)
			if o.violation != "" {
				nviol++
				rec.Violation(o.violation, "c15", c)
			}
		}
	}
	rec.Sample(map[string]any{"enumerated": "every write length 0..1100 and 2^k +-2 up to the record limit, once per connection type and direction", "buffers": []int{4096, 1, 70000, 7, 1000, 32768, 3}})
	rec.Done()
	if nviol > 0 {
		t.Fatalf("%d violations", nviol)
	}
}

func TestC15Grpc(t *testing.T)    { testC15(t, "TestC15Grpc", "grpc") }
func TestC15TCP(t *testing.T)     { testC15(t, "TestC15TCP", "tcp") }
func TestC15Mailbox(t *testing.T) { testC15(t, "TestC15Mailbox", "mailbox") }
