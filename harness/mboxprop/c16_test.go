package mboxprop

import (
	"bytes"
	"errors"
	"fmt"
	"io"
	"net"
	"sort"
	"testing"
	"time"

	"github.com/lightninglabs/lightning-node-connect/mailbox"
	"pgregory.net/rapid"

	"verif/harness/stats"
)

// ---------- (a) handshake under read fragmentation ----------

type fragCase struct {
	Cfg  hsConfig `json:"cfg"`
	Frag int      `json:"frag"` // every Read returns at most Frag bytes
}

type hsView struct {
	ok               bool
	version          byte
	auth             []byte
	iKeys            [2][32]byte
	remoteI, remoteR []byte
}

func viewOf(p *hsPair) hsView {
	v := hsView{ok: p.I.err == nil && p.R.err == nil}
	if v.ok {
		si, sr := p.I.m.VerifState(), p.R.m.VerifState()
		v.version = si.Version
		v.auth = p.I.cd.AuthData()
		v.iKeys = [2][32]byte{si.SendKey, si.RecvKey}
		if si.RemoteStatic != nil {
			v.remoteI = si.RemoteStatic.SerializeCompressed()
		}
		if sr.RemoteStatic != nil {
			v.remoteR = sr.RemoteStatic.SerializeCompressed()
		}
		if si.SendKey != sr.RecvKey || si.RecvKey != sr.SendKey || si.Version != sr.Version {
			v.ok = false
		}
	}
	return v
}

func runC16Frag(c fragCase) string {
	base := newHSPair(c.Cfg)
	base.run()
	if isPanic(base.I.err) || isPanic(base.R.err) {
		return fmt.Sprintf("panic: %v / %v", base.I.err, base.R.err)
	}
	frag := newHSPair(c.Cfg)
	frag.i2r.frag, frag.r2i.frag = c.Frag, c.Frag
	frag.run()
	if isPanic(frag.I.err) || isPanic(frag.R.err) {
		return fmt.Sprintf("panic with fragmented reads: %v / %v", frag.I.err, frag.R.err)
	}
	a, b := viewOf(base), viewOf(frag)
	if a.ok != b.ok {
		return fmt.Sprintf("handshake outcome depends on read fragmentation: message-preserving transport ok=%v, reads of at most %d byte(s) ok=%v (initiator: %v, responder: %v)",
			a.ok, c.Frag, b.ok, frag.I.err, frag.R.err)
	}
	if a.ok {
		if a.version != b.version || !bytes.Equal(a.auth, b.auth) || a.iKeys != b.iKeys ||
			!bytes.Equal(a.remoteI, b.remoteI) || !bytes.Equal(a.remoteR, b.remoteR) {
			return "handshake result (version/payload/keys/identities) differs under read fragmentation"
		}
	}
	return ""
}

func TestC16HandshakeFragmentation(t *testing.T) {
	const unit = "TestC16HandshakeFragmentation"
	rec := stats.New(t, "C16", unit)
	var rc fragCase
	if stats.ReplayCase(unit, &rc) {
		if v := runC16Frag(rc); v != "" {
			rec.Violation(v, "frag", rc)
			t.Fatal(v)
		}
		return
	}
	if stats.ReplayMode() {
		t.Skip()
	}
	nviol := 0
	seed := stats.Seed()
	for _, pat := range []string{"XX", "KK"} {
		for imin := 0; imin <= 2; imin++ {
			for imax := imin; imax <= 2; imax++ {
				for rmin := 0; rmin <= 2; rmin++ {
					for rmax := rmin; rmax <= 2; rmax++ {
						for _, frag := range []int{1, 2, 7, 33, 100} {
							for _, al := range []int{0, 40, 600} {
								cfg := hsConfig{Pattern: pat, IMin: imin, IMax: imax, RMin: rmin, RMax: rmax, Seed: seed,
									AuthLen: al, PassMode: "same", IKnowsR: true, RKnowsI: true}
								c := fragCase{Cfg: cfg, Frag: frag}
								rec.Current("frag", c)
								v := runC16Frag(c)
								rec.Case(true, fmt.Sprintf("%+v", c), "handshake_frag_"+pat)
								if v != "" && nviol < 5 {
									nviol++
									rec.Violation(v, "frag", c)
								}
							}
						}
					}
				}
			}
		}
	}
	rec.Sample(fragCase{Cfg: hsConfig{Pattern: "XX", IMin: 0, IMax: 2, RMin: 0, RMax: 2, Seed: seed, AuthLen: 40}, Frag: 1})
	rec.SetExhaustive(true)
	rec.Done()
	if nviol > 0 {
		t.Fatalf("%d violations", nviol)
	}
}

// ---------- (b) records under read fragmentation ----------

type fragReader struct {
	b    []byte
	frag []int
	i    int
}

func (f *fragReader) Read(p []byte) (int, error) {
	if len(f.b) == 0 {
		return 0, errors.New("EOF")
	}
	n := 1
	if len(f.frag) > 0 {
		n = f.frag[f.i%len(f.frag)]
		f.i++
	}
	if n > len(p) {
		n = len(p)
	}
	if n > len(f.b) {
		n = len(f.b)
	}
	if n <= 0 {
		n = 1
		if n > len(p) {
			return 0, nil
		}
	}
	copy(p, f.b[:n])
	f.b = f.b[n:]
	return n, nil
}

// ---------- (c) partial writes ----------

type timeoutErr struct{}

func (timeoutErr) Error() string   { return "i/o timeout" }
func (timeoutErr) Timeout() bool   { return true }
func (timeoutErr) Temporary() bool { return true }

// partialWriter accepts bytes up to the next cut point and then fails with a
// timeout error.
type partialWriter struct {
	cuts     []int // absolute offsets at which a Write call is interrupted
	accepted []byte
	calls    int
}

func (w *partialWriter) Write(p []byte) (int, error) {
	w.calls++
	pos := len(w.accepted)
	for len(w.cuts) > 0 && w.cuts[0] <= pos {
		w.cuts = w.cuts[1:]
	}
	if len(w.cuts) > 0 && pos+len(p) > w.cuts[0] {
		n := w.cuts[0] - pos
		w.accepted = append(w.accepted, p[:n]...)
		w.cuts = w.cuts[1:]
		return n, timeoutErr{}
	}
	w.accepted = append(w.accepted, p...)
	return len(p), nil
}

type partCase struct {
	Cfg  hsConfig `json:"cfg"`
	Len  int      `json:"len"`
	Pos  int      `json:"pos"`  // records written before the one under test
	Cuts []int    `json:"cuts"` // absolute offsets in the wire record
	Frag []int    `json:"frag"` // read fragmentation used by the peer
}

// partSess keeps a reference session and a session under test in lock step so
// that an enumeration does not pay two handshakes per case.
type partSess struct {
	ref, p *hsPair
}

func runC16Partial(c *partCase) string {
	return runC16PartialOn(c, nil)
}

func runC16PartialOn(c *partCase, sess *partSess) (violation string) {
	var ref, p *hsPair
	var err error
	if sess != nil && sess.ref != nil {
		ref, p = sess.ref, sess.p
		defer func() {
			if violation != "" {
				sess.ref, sess.p = nil, nil // possibly out of step: start over
			}
		}()
	} else {
		// reference session: the same record written in one go
		if ref, err = established(c.Cfg); err != nil {
			return err.Error()
		}
		// session under test
		if p, err = established(c.Cfg); err != nil {
			return err.Error()
		}
		for i := 0; i < c.Pos; i++ {
			_, _ = writeRecord(ref.I.m, []byte{byte(i)})
			wire, _ := writeRecord(p.I.m, []byte{byte(i)})
			if _, err := safeRead(p.R.m, bytes.NewReader(wire)); err != nil {
				return "prefix record failed: " + err.Error()
			}
		}
		if sess != nil {
			sess.ref, sess.p = ref, p
		}
	}
	pt := entropy(c.Cfg.Seed, "partial", c.Len)
	want, err := writeRecord(ref.I.m, pt)
	if err != nil {
		return "reference write failed: " + err.Error()
	}
	w := &partialWriter{cuts: append([]int(nil), c.Cuts...)}
	if err := p.I.m.WriteMessage(pt); err != nil {
		return "WriteMessage failed: " + err.Error()
	}
	sum := 0
	for guard := 0; ; guard++ {
		if guard > len(c.Cuts)+3 {
			return fmt.Sprintf("Flush did not finish after %d calls", guard)
		}
		n, err := p.I.m.Flush(w)
		if n < 0 {
			return fmt.Sprintf("Flush returned a negative count %d", n)
		}
		sum += n
		if err == nil {
			break
		}
		var te interface{ Timeout() bool }
		if !errors.As(err, &te) {
			return "Flush returned an unexpected error: " + err.Error()
		}
		// a new record cannot be started while bytes are pending
		pending := len(w.accepted) < len(want)
		if pending {
			before := len(w.accepted)
			if werr := p.I.m.WriteMessage([]byte("intruder")); !errors.Is(werr, mailbox.ErrMessageNotFlushed) {
				return fmt.Sprintf("WriteMessage with %d of %d bytes still pending returned %v, want ErrMessageNotFlushed", len(want)-before, len(want), werr)
			}
		}
	}
	// a further Flush is a no-op
	if n, err := p.I.m.Flush(w); n != 0 || err != nil {
		return fmt.Sprintf("Flush with nothing pending returned %d, %v", n, err)
	}
	if !bytes.Equal(w.accepted, want) {
		return fmt.Sprintf("bytes emitted over all Flush calls (%d) differ from the wire record (%d bytes): partial writes at %v", len(w.accepted), len(want), c.Cuts)
	}
	if sum != len(pt) {
		return fmt.Sprintf("Flush calls reported %d plaintext bytes in total, the record has %d (cuts %v)", sum, len(pt), c.Cuts)
	}
	// the peer decrypts the concatenation, read in fragments
	got, err := safeRead(p.R.m, &fragReader{b: append([]byte(nil), w.accepted...), frag: c.Frag})
	if err != nil {
		return "peer failed to decrypt the re-assembled record: " + err.Error()
	}
	if !bytes.Equal(got, pt) {
		return "peer decrypted the re-assembled record to different bytes"
	}
	// and the writer can continue with the next record
	_, _ = writeRecord(ref.I.m, []byte("next"))
	next, err := writeRecord(p.I.m, []byte("next"))
	if err != nil {
		return "next record after partial writes failed: " + err.Error()
	}
	if got, err := safeRead(p.R.m, &fragReader{b: next, frag: c.Frag}); err != nil || string(got) != "next" {
		return fmt.Sprintf("record after partial writes did not decrypt: %v", err)
	}
	return ""
}

// TestC16PartialEnum: all two- and three-way partitions of the wire bytes for
// payload sizes 0..24.
func TestC16PartialEnum(t *testing.T) {
	const unit = "TestC16PartialEnum"
	rec := stats.New(t, "C16", unit)
	var rc partCase
	if stats.ReplayCase(unit, &rc) {
		if v := runC16Partial(&rc); v != "" {
			rec.Violation(v, "partial", rc)
			t.Fatal(v)
		}
		return
	}
	if stats.ReplayMode() {
		t.Skip()
	}
	nviol := 0
	seed := stats.Seed()
	cfg := hsConfig{Pattern: "XX", IMin: 0, IMax: 2, RMin: 0, RMax: 2, Seed: seed, AuthLen: 16, PassMode: "same"}
	shard, shards := stats.Shard()
	idx := 0
	maxLen := 24
	sess := &partSess{}
	for l := 0; l <= maxLen; l++ {
		wl := 18 + l + 16
		for a := 0; a <= wl; a++ {
			for b := a; b <= wl; b++ {
				idx++
				if idx%shards != shard {
					continue
				}
				cuts := []int{a, b}
				if a == b {
					cuts = []int{a}
				}
				c := &partCase{Cfg: cfg, Len: l, Cuts: cuts, Frag: []int{1}}
				v := runC16PartialOn(c, sess)
				rec.Case(true, fmt.Sprintf("%d/%v", l, cuts), "partition")
				if v != "" && nviol < 5 {
					nviol++
					rec.Violation(v, "partial", c)
				}
			}
		}
	}
	rec.Sample(partCase{Cfg: cfg, Len: 5, Cuts: []int{3, 20}})
	rec.Sample(map[string]any{"enumerated": "all 2- and 3-way partitions of the wire bytes", "payload_sizes": fmt.Sprintf("0..%d", maxLen)})
	rec.SetExhaustive(true)
	rec.Done()
	if nviol > 0 {
		t.Fatalf("%d violations", nviol)
	}
}

func TestC16PartialRapid(t *testing.T) {
	const unit = "TestC16PartialRapid"
	rec := stats.New(t, "C16", unit)
	var rc partCase
	if stats.ReplayCase(unit, &rc) {
		if v := runC16Partial(&rc); v != "" {
			rec.Violation(v, "partial", rc)
			t.Fatal(v)
		}
		return
	}
	if stats.ReplayMode() {
		t.Skip()
	}
	rapid.Check(t, func(rt *rapid.T) {
		c := &partCase{Cfg: genCleanCfg(rt)}
		c.Len = rapid.OneOf(rapid.IntRange(0, 64), rapid.IntRange(0, 3000), rapid.SampledFrom([]int{65535, 32768})).Draw(rt, "len")
		c.Pos = rapid.SampledFrom([]int{0, 0, 1, 3, 499, 500}).Draw(rt, "pos")
		wl := 18 + c.Len + 16
		n := rapid.IntRange(0, 12).Draw(rt, "ncuts")
		seen := map[int]bool{}
		for i := 0; i < n; i++ {
			x := rapid.OneOf(rapid.IntRange(0, 40), rapid.IntRange(0, wl), rapid.IntRange(wl-20, wl)).Draw(rt, "cut")
			if x < 0 {
				x = 0
			}
			if x > wl {
				x = wl
			}
			if !seen[x] {
				seen[x] = true
				c.Cuts = append(c.Cuts, x)
			}
		}
		// cuts must be ascending
		for i := 0; i < len(c.Cuts); i++ {
			for j := i + 1; j < len(c.Cuts); j++ {
				if c.Cuts[j] < c.Cuts[i] {
					c.Cuts[i], c.Cuts[j] = c.Cuts[j], c.Cuts[i]
				}
			}
		}
		c.Frag = rapid.SliceOfN(rapid.SampledFrom([]int{1, 1, 2, 3, 17, 18, 19, 100, 70000}), 1, 5).Draw(rt, "frag")
		rec.Current("partial", c)
		v := runC16Partial(c)
		rec.Case(len(c.Cuts) > 0, fmt.Sprintf("%+v", *c), "partial_random")
		if len(c.Cuts) > 2 && rec.WantSample() {
			rec.Sample(c)
		}
		if v != "" {
			rec.Pending(v, "partial", c)
			rt.Fatalf("%s", v)
		}
	})
	rec.Done()
}

// ---------- (d) NoiseConn.Write over a transport that times out ----------

// cutConn is a net.Conn whose Write side is a partialWriter.
type cutConn struct {
	w *partialWriter
}

func (c *cutConn) Read([]byte) (int, error)         { return 0, io.EOF }
func (c *cutConn) Write(p []byte) (int, error)      { return c.w.Write(p) }
func (c *cutConn) Close() error                     { return nil }
func (c *cutConn) LocalAddr() net.Addr              { return fakeAddr("cut") }
func (c *cutConn) RemoteAddr() net.Addr             { return fakeAddr("peer-of-cut") }
func (c *cutConn) SetDeadline(time.Time) error      { return nil }
func (c *cutConn) SetReadDeadline(time.Time) error  { return nil }
func (c *cutConn) SetWriteDeadline(time.Time) error { return nil }

type connWriteCase struct {
	Cfg    hsConfig `json:"cfg"`
	Writes []int    `json:"writes"` // sizes of the application's Write calls (chunked above 65535)
	Cuts   []int    `json:"cuts"`   // absolute wire offsets at which the transport times out
}

// runC16ConnWrite drives NoiseConn.Write the way its documentation asks a
// caller to: after a timeout error, Flush until it succeeds, add every count
// returned, then go on with the unreported remainder. Oracle: the peer decrypts
// exactly the bytes the application wrote, once.
func runC16ConnWrite(c *connWriteCase) string {
	p, err := established(c.Cfg)
	if err != nil {
		return err.Error()
	}
	pw := &partialWriter{cuts: append([]int(nil), c.Cuts...)}
	conn := mailbox.VerifNewNoiseConn(&cutConn{w: pw}, p.I.m)
	var all []byte
	for i, l := range c.Writes {
		b := entropy(c.Cfg.Seed, fmt.Sprintf("connwrite/%d", i), l)
		all = append(all, b...)
		total := 0
		for guard := 0; ; guard++ {
			if guard > 10000 {
				return "Write/Flush never finished"
			}
			n, err := conn.Write(b[total:])
			if n < 0 || total+n > len(b) {
				return fmt.Sprintf("Write #%d reported %d bytes with %d left to write", i, n, len(b)-total)
			}
			total += n
			if err == nil {
				break
			}
			var te interface{ Timeout() bool }
			if !errors.As(err, &te) || !te.Timeout() {
				return fmt.Sprintf("Write #%d failed with a non-timeout error on a transport that only times out: %v", i, err)
			}
			// complete the pending record
			for {
				m, ferr := conn.Flush()
				total += m
				if ferr == nil {
					break
				}
				if guard++; guard > 10000 {
					return "Flush never finished"
				}
			}
			if total >= len(b) {
				if total > len(b) {
					return fmt.Sprintf("Write #%d: Write and Flush together reported %d bytes for a %d byte write", i, total, len(b))
				}
				break
			}
		}
		if total != len(b) {
			return fmt.Sprintf("Write #%d: %d bytes reported for a %d byte write", i, total, len(b))
		}
	}
	// the peer reads the wire
	rd := bytes.NewReader(pw.accepted)
	var got []byte
	for rd.Len() > 0 {
		pt, err := safeRead(p.R.m, rd)
		if err != nil {
			return fmt.Sprintf("the peer failed to decrypt the stream after %d of %d bytes: %v", len(got), len(all), err)
		}
		got = append(got, pt...)
	}
	if !bytes.Equal(got, all) {
		return fmt.Sprintf("the peer decrypted %d bytes, the application wrote %d (first difference at %d): resumed writes lost or repeated data", len(got), len(all), firstDiff(got, all))
	}
	return ""
}

func firstDiff(a, b []byte) int {
	for i := 0; i < len(a) && i < len(b); i++ {
		if a[i] != b[i] {
			return i
		}
	}
	if len(a) < len(b) {
		return len(a)
	}
	return len(b)
}

func TestC16ConnWriteResume(t *testing.T) {
	const unit = "TestC16ConnWriteResume"
	rec := stats.New(t, "C16", unit)
	var rc connWriteCase
	if stats.ReplayCase(unit, &rc) {
		if v := runC16ConnWrite(&rc); v != "" {
			rec.Violation(v, "connwrite", rc)
			t.Fatal(v)
		}
		return
	}
	if stats.ReplayMode() {
		t.Skip()
	}
	rapid.Check(t, func(rt *rapid.T) {
		c := &connWriteCase{Cfg: genCleanCfg(rt)}
		c.Writes = rapid.SliceOfN(rapid.OneOf(
			rapid.IntRange(0, 300),
			rapid.SampledFrom([]int{65535, 65536, 65537, 131070, 131071, 140000}),
			rapid.IntRange(65536, 200000),
		), 1, 3).Draw(rt, "writes")
		wire := 0
		for _, l := range c.Writes {
			for rest := l; ; rest -= 65535 {
				if rest > 65535 {
					wire += 18 + 65535 + 16
					continue
				}
				wire += 18 + rest + 16
				break
			}
		}
		n := rapid.IntRange(0, 8).Draw(rt, "ncuts")
		seen := map[int]bool{}
		for i := 0; i < n; i++ {
			// cut points anywhere, and near record boundaries (every
			// 65535+34 bytes for chunked writes)
			x := rapid.OneOf(rapid.IntRange(0, wire), rapid.IntRange(0, 60),
				rapid.Custom(func(t *rapid.T) int {
					return (65535+34)*rapid.IntRange(1, 3).Draw(t, "rec") + rapid.IntRange(-40, 420).Draw(t, "off")
				})).Draw(rt, "cut")
			if x >= 0 && x <= wire && !seen[x] {
				seen[x] = true
				c.Cuts = append(c.Cuts, x)
			}
		}
		sort.Ints(c.Cuts)
		rec.Current("connwrite", c)
		v := runC16ConnWrite(c)
		chunked := false
		for _, l := range c.Writes {
			if l > 65535 {
				chunked = true
			}
		}
		labels := []string{"conn_write"}
		if chunked && len(c.Cuts) > 0 {
			labels = append(labels, "conn_write_chunked_with_timeouts")
		}
		rec.Case(len(c.Cuts) > 0, fmt.Sprintf("%+v", *c), labels...)
		if chunked && len(c.Cuts) > 0 && rec.WantSample() {
			rec.Sample(c)
		}
		if v != "" {
			rec.Pending(v, "connwrite", c)
			rt.Fatalf("%s", v)
		}
	})
	rec.Done()
}
