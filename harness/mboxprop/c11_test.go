package mboxprop

import (
	"bytes"
	"context"
	"fmt"
	"net"
	"runtime"
	"strings"
	"sync"
	"testing"
	"time"

	"github.com/btcsuite/btcd/btcec/v2"
	"github.com/lightninglabs/lightning-node-connect/mailbox"
	"pgregory.net/rapid"

	"verif/harness/relay"
	"verif/harness/stats"
)

// sessAction is one abstract step of a session history. Actions whose
// precondition does not hold are skipped (and counted).
type sessAction struct {
	Op  string `json:"op"`  // connect | transfer | close_client | close_server | wait | intruder | early_dial
	Arg int    `json:"arg"` // ms / bytes / offset depending on Op
	// Early (connect only): call Dial while the previous connection is still
	// open; it must block until that connection is closed.
	Early bool `json:"early,omitempty"`
}

type c11Case struct {
	Seed      uint64       `json:"seed"`
	ClientMax int          `json:"server_max"` // the server's max handshake version (the client, always updated first, supports 0..2)
	LatMs     int          `json:"lat_ms"`
	Actions   []sessAction `json:"actions"`
	// CancelDialCtx: the context given to Client.Dial is cancelled as soon as
	// Dial has returned.
	CancelDialCtx bool `json:"cancel_dial_ctx,omitempty"`
	// DelFail: the first DelFail DelCipherBox calls fail with a transient
	// error (they happen when the server tears down the passphrase mailboxes
	// at the post-pairing switch).
	DelFail int `json:"del_fail,omitempty"`
	// LateKey: the static keys are exchanged out of band (SetRemote on both
	// ConnData) after the Client and Server objects exist but before the
	// first Dial / Accept: the first connection already uses the key-derived
	// rendezvous and the KK pattern.
	LateKey bool `json:"late_key,omitempty"`
}

type c11Outcome struct {
	knownHits  []string
	violation  string
	labels     []string
	log        []string
	reconnects int
	switched   bool
	nontrivial bool
}

type liveConn struct {
	raw    net.Conn // mailbox conn returned by Accept/Dial
	secure net.Conn // after the Noise handshake
	done   <-chan struct{}
}

func runC11(t *testing.T, c *c11Case, known func(string) bool) (out c11Outcome) {
	logf := func(f string, a ...any) {
		if len(out.log) < 200 {
			out.log = append(out.log, fmt.Sprintf(f, a...))
		}
	}
	// Runs in REAL time: the mailbox conns sleep in their stream re-creation
	// back-off while holding the stream mutex that Close needs, which a
	// synctest bubble cannot schedule (DESIGN.md 3.2a). Sessions are
	// sleep-bound, so many of them run concurrently in one process.
	func() {
		start := time.Now()
		r := relay.New(ms(c.LatMs))
		r.FailDeletes(c.DelFail)
		cliKey, srvKey := ecdhKey(c.Seed, "cli"), ecdhKey(c.Seed, "srv")
		pass := entropy(c.Seed, "pass", 14)
		auth := entropy(c.Seed, "auth", 64)
		var mu sync.Mutex
		var srvRemote, cliRemote []*btcec.PublicKey
		cdS := mailbox.NewConnData(srvKey, nil, pass, auth,
			func(k *btcec.PublicKey) error { mu.Lock(); srvRemote = append(srvRemote, k); mu.Unlock(); return nil }, nil)
		cdC := mailbox.NewConnData(cliKey, nil, pass, nil,
			func(k *btcec.PublicKey) error { mu.Lock(); cliRemote = append(cliRemote, k); mu.Unlock(); return nil }, nil)
		passSID, _ := cdS.SID()

		srv, err := mailbox.VerifNewServer("relay", cdS, func(mailbox.ServerStatus) {}, r.Client("server"))
		if err != nil {
			out.violation = "server setup: " + err.Error()
			return
		}
		cctx, ccancel := context.WithCancel(context.Background())
		cli, err := mailbox.NewClient(cctx, "relay", cdC, mailbox.VerifWithHashMailClient(r.Client("client")))
		if err != nil {
			ccancel()
			out.violation = "client setup: " + err.Error()
			return
		}
		if c.LateKey {
			_ = cdS.SetRemote(cliKey.PubKey())
			_ = cdC.SetRemote(srvKey.PubKey())
		}
		fail := func(f string, a ...any) {
			mu.Lock()
			if out.violation == "" {
				out.violation = fmt.Sprintf(f, a...)
			}
			mu.Unlock()
		}

		// ---- server side: the accept loop of a grpc server ----
		type accepted struct {
			lc  *liveConn
			err error
		}
		acceptCh := make(chan accepted, 16)
		var srvWG sync.WaitGroup
		srvWG.Add(1)
		go func() {
			defer srvWG.Done()
			var prev <-chan struct{}
			for {
				conn, err := srv.Accept()
				if err != nil {
					// grpc looks at Temporary() first: a temporary error means
					// "call Accept again" whatever its text is (a failed
					// re-accept handshake surfaces as a temporary io.EOF)
					te, isTemp := err.(interface{ Temporary() bool })
					if !(isTemp && te.Temporary()) && strings.Contains(err.Error(), "EOF") {
						return
					}
					// temporary error: grpc would call Accept again
					logf("%v accept error: %v", time.Since(start), err)
					time.Sleep(100 * time.Millisecond)
					continue
				}
				// (1) the previous connection handed out must be closed
				if prev != nil {
					select {
					case <-prev:
					default:
						fail("Server.Accept returned a new connection at %v while the previous one is still open", time.Since(start))
					}
				}
				sc := conn.(*mailbox.ServerConn)
				prev = sc.Done()
				logf("%v accept returned %p", time.Since(start), sc)
				go func() { <-sc.Done(); logf("%v server conn %p Done closed", time.Since(start), sc) }()
				acceptCh <- accepted{lc: &liveConn{raw: conn, done: sc.Done()}}
			}
		}()

		// server handler: Noise handshake, then echo until error, then Close
		// (what the grpc transport does when the connection breaks)
		type srvSession struct {
			lc      *liveConn
			hsErr   error
			hsDone  chan struct{}
			closed  chan struct{}
			pattern string
		}
		handle := func(lc *liveConn) *srvSession {
			s := &srvSession{lc: lc, hsDone: make(chan struct{}), closed: make(chan struct{})}
			go func() {
				defer close(s.closed)
				s.pattern = cdS.HandshakePattern().Name
				nconn := mailbox.NewNoiseGrpcConn(cdS, mailbox.WithMaxHandshakeVersion(byte(c.ClientMax)))
				sec, _, err := nconn.ServerHandshake(lc.raw)
				s.hsErr = err
				if err == nil {
					lc.secure = sec
				}
				close(s.hsDone)
				if err != nil {
					_ = lc.raw.Close()
					return
				}
				buf := make([]byte, 70000)
				for {
					n, err := safeConnRead(sec, buf)
					if err != nil {
						break
					}
					if _, err := safeConnWrite(sec, buf[:n]); err != nil {
						break
					}
				}
				_ = sec.Close()
			}()
			return s
		}

		stuck := false
		wedged := false
		waitCh := func(ch <-chan struct{}, d time.Duration, what string) bool {
			select {
			case <-ch:
				return true
			case <-time.After(d):
				fail("%s did not happen within %v", what, d)
				stuck = true
				return false
			}
		}
		var (
			cur      *liveConn // client side of the live connection
			curSrv   *srvSession
			prevCli  <-chan struct{}
			skipped  int
			restarts int
			junked   int
			xfer     int
		)
		alive := func() bool {
			if cur == nil {
				return false
			}
			select {
			case <-cur.done:
				return false
			default:
			}
			select {
			case <-curSrv.closed:
				return false
			default:
			}
			return true
		}
		var closeBoth func()
		// dialOnce: one Dial + client handshake against whatever the accept
		// loop hands out; returns true if a secured pair is up.
		// The dial context only governs the dial (net.Dialer / grpc
		// WithContextDialer convention; grpc cancels it once the transport is
		// up): with CancelDialCtx it is cancelled as soon as Dial returns.
		dialCtx := func(cl *mailbox.Client) (net.Conn, error) {
			if !c.CancelDialCtx {
				return cl.Dial(context.Background(), "")
			}
			ctx, cancel := context.WithCancel(context.Background())
			conn, err := cl.Dial(ctx, "")
			cancel()
			return conn, err
		}
		dialOnce := func(offsetMs int, early bool) bool {
			type dres struct {
				conn net.Conn
				err  error
			}
			dc := make(chan dres, 1)
			if early && alive() {
				prevDone := cur.done
				go func() {
					conn, err := dialCtx(cli)
					if err == nil {
						select {
						case <-prevDone:
						default:
							fail("Client.Dial returned while the previous connection was still open")
						}
					}
					dc <- dres{conn, err}
				}()
				select {
				case d := <-dc:
					dc <- d
					if alive() {
						fail("a second Dial completed while the first connection is alive")
					}
				case <-time.After(ms(300 + offsetMs)):
				}
				closeBoth()
				out.reconnects++
				out.labels = append(out.labels, "dial_before_previous_closed")
			} else {
				go func() {
					time.Sleep(ms(offsetMs))
					conn, err := dialCtx(cli)
					dc <- dres{conn, err}
				}()
			}
			var d dres
			select {
			case d = <-dc:
			case <-time.After(150 * time.Second):
				fail("Client.Dial still blocked after 150s although the relay is healthy and the server is accepting")
				// where is everybody? (for the replay file; this alarm does
				// not reproduce from its case alone)
				buf := make([]byte, 4<<20)
				n := runtime.Stack(buf, true)
				cnt := 0
				for _, g := range strings.Split(string(buf[:n]), "\n\n") {
					if (strings.Contains(g, "mailbox.(*Client") || strings.Contains(g, "mailbox.RefreshClientConn") || strings.Contains(g, "mailbox.NewClientConn")) && cnt < 12 {
						cnt++
						logf("stack: %s", strings.ReplaceAll(g, "\n", " | "))
					}
				}
				stuck = true
				return false
			}
			if d.err != nil {
				logf("%v dial error: %v", time.Since(start), d.err)
				return false
			}
			cc := d.conn.(*mailbox.ClientConn)
			// (1) client side: previous connection must be closed
			if prevCli != nil {
				select {
				case <-prevCli:
				default:
					fail("Client.Dial returned a new connection at %v while the previous one is still open", time.Since(start))
				}
			}
			prevCli = cc.Done()
			var a accepted
			select {
			case a = <-acceptCh:
			case <-time.After(60 * time.Second):
				logf("%v dial returned but accept did not within 60s", time.Since(start))
				_ = d.conn.Close()
				return false
			}
			ss := handle(a.lc)
			pat := cdC.HandshakePattern().Name
			nconn := mailbox.NewNoiseGrpcConn(cdC)
			sec, _, err := nconn.ClientHandshake(context.Background(), "", d.conn)
			if !waitCh(ss.hsDone, 60*time.Second, "server handshake return") {
				return false
			}
			if err != nil || ss.hsErr != nil {
				logf("%v noise handshake failed: client %v server %v", time.Since(start), err, ss.hsErr)
				_ = d.conn.Close()
				waitCh(ss.closed, 60*time.Second, "server handler exit after a failed handshake")
				return false
			}
			if pat != ss.pattern {
				fail("client used pattern %s, server %s for the same connection", pat, ss.pattern)
			}
			if !bytes.Equal(cdC.AuthData(), auth) {
				fail("client holds a different auth payload after the handshake")
			}
			cur = &liveConn{raw: d.conn, secure: sec, done: cc.Done()}
			curSrv = ss
			logf("%v connected with pattern %s", time.Since(start), pat)
			// which streams were used?
			sidNow := cc.RemoteAddr().(*mailbox.Addr).SID // client receives on the server->client stream
			if pat == mailbox.KK {
				kSID, _ := cdC.SID()
				if sidNow != mailbox.GetSID(kSID, true) {
					fail("KK reconnect does not use the key-derived rendezvous")
				}
				if kSID == passSID {
					fail("key-derived SID equals the passphrase SID")
				}
			}
			return true
		}
		closeBoth = func() {
			if cur != nil && !stuck {
				cdone := make(chan struct{})
				go func() { _ = cur.secure.Close(); close(cdone) }()
				if waitCh(cdone, 60*time.Second, "client Close return") &&
					waitCh(curSrv.closed, 60*time.Second, "server handler exit after the client closed") {
					waitCh(curSrv.lc.done, 60*time.Second, "server conn Done after its Close")
				}
			}
			cur, curSrv = nil, nil
		}
		connect := func(offsetMs int, early bool) bool {
			t0 := time.Now()
			for attempt := 0; attempt < 12 && !stuck; attempt++ {
				if dialOnce(offsetMs, early && attempt == 0) {
					// does it survive the first seconds (a late duplicate SYN
					// reply may still kill it) and carry bytes?
					p := entropy(c.Seed, fmt.Sprintf("probe/%d/%d", out.reconnects, attempt), 33)
					if echo(cur.secure, p) == "" && alive() {
						logf("%v connect ok after %d attempt(s), %v", time.Since(start), attempt+1, time.Since(t0))
						return true
					}
					logf("%v connection died right after setup", time.Since(start))
					closeBoth()
				}
				mu.Lock()
				bad := out.violation != ""
				mu.Unlock()
				if bad {
					return false
				}
			}
			if stuck {
				return false
			}
			fail("no working connection after 12 dial attempts (%v of virtual time) although the relay is healthy", time.Since(t0))
			return false
		}

		for _, a := range c.Actions {
			mu.Lock()
			bad := out.violation != ""
			mu.Unlock()
			if bad || stuck || wedged {
				break
			}
			switch a.Op {
			case "connect":
				if alive() && !a.Early {
					skipped++
					continue
				}
				if cur != nil && !alive() {
					closeBoth()
					out.reconnects++
				}
				hadKeys := cdC.RemoteKey() != nil && cdS.RemoteKey() != nil
				if !connect(a.Arg, a.Early) {
					break
				}
				if hadKeys {
					if cdC.HandshakePattern().Name != mailbox.KK {
						fail("after the key exchange the client does not use KK")
					}
					out.switched = true
				}
				// after a v2 pairing both sides hold each other's key and agree
				// on the new SID
				if c.ClientMax >= 2 {
					sc, _ := cdC.SID()
					ss, _ := cdS.SID()
					if sc != ss {
						fail("client and server derive different SIDs after pairing")
					}
					if sc == passSID {
						fail("SID did not change after a version-2 pairing")
					}
					if cdC.RemoteKey() == nil || !cdC.RemoteKey().IsEqual(srvKey.PubKey()) ||
						cdS.RemoteKey() == nil || !cdS.RemoteKey().IsEqual(cliKey.PubKey()) {
						fail("static keys were not exchanged correctly in a version-2 pairing")
					}
				} else if cdC.RemoteKey() != nil || cdS.RemoteKey() != nil {
					fail("a version-%d pairing stored a remote key", c.ClientMax)
				}
			case "transfer":
				if !alive() {
					skipped++
					continue
				}
				xfer++
				p := entropy(c.Seed, fmt.Sprintf("xfer/%d", xfer), 1+a.Arg%40000)
				if v := echo(cur.secure, p); v != "" {
					// the connection may legitimately have died; then it must
					// be dead on both sides soon
					logf("%v transfer failed: %s", time.Since(start), v)
					if strings.HasPrefix(v, "echo differs") {
						fail("%s", v)
					}
					closeBoth()
				}
			case "close_client":
				if !alive() {
					skipped++
					continue
				}
				if hung := closeWithin(60*time.Second, []string{"client"}, cur.secure.Close); len(hung) > 0 {
					fail("Close of the client's connection did not return within 60s")
					stuck = true
					break
				}
				// the server handler must notice and close its side within
				// one keepalive period
				select {
				case <-curSrv.closed:
				case <-time.After(30 * time.Second):
					fail("server side still open 30s after the client closed the connection")
				}
			case "close_server":
				if !alive() {
					skipped++
					continue
				}
				if hung := closeWithin(60*time.Second, []string{"server"}, curSrv.lc.secure.Close); len(hung) > 0 {
					fail("Close of the server's connection did not return within 60s")
					stuck = true
					break
				}
				buf := make([]byte, 16)
				rc := make(chan error, 1)
				go func() { _, err := safeConnRead(cur.secure, buf); rc <- err }()
				select {
				case err := <-rc:
					if err == nil {
						fail("client read succeeded after the server closed")
					}
				case <-time.After(30 * time.Second):
					// Known finding: at the post-pairing switch the server's
					// next Accept deletes the old mailboxes (Stop) together
					// with the FIN still queued in them; the client's
					// transport then retries "stream not found" forever
					// inside the GBN send/recv callbacks, which also blocks
					// the keepalive, so the client never notices.
					cc := cur.raw.(*mailbox.ClientConn)
					rid := cc.RemoteAddr().(*mailbox.Addr).SID
					_, evs := r.Snapshot()
					deleted := false
					for _, e := range evs {
						if e.Op == "del" && e.Stream == string(rid[:]) {
							deleted = true
						}
					}
					if deleted && known("mailbox-client-hangs-after-mailbox-deleted") {
						out.knownHits = append(out.knownHits, "mailbox-client-hangs-after-mailbox-deleted")
						logf("%v known finding: client hangs after its mailboxes were deleted", time.Since(start))
						// the wedged client cannot even Close (its retry loop
						// holds the send mutex the FIN needs): end the session
						// here; cancelling the client's context unwinds it.
						wedged = true
					} else {
						fail("client Read still blocked 30s after the server closed the connection")
					}
				}
			case "junk":
				// between two connections the relay delivers one frame that
				// is no GBN packet towards the server: the next accept
				// attempt fails on it (a temporary error for the accept
				// loop), the one after that must work again
				if alive() {
					skipped++
					continue
				}
				if cur != nil {
					closeBoth()
					out.reconnects++
				}
				sidNow, _ := cdS.SID()
				in := mailbox.GetSID(sidNow, false)
				if r.Inject(in[:], []byte{0xff, byte(a.Arg)}) {
					junked++
				}
			case "relay_restart":
				// the relay process is restarted and has forgotten its
				// mailboxes; the session's current connection is given up by
				// both sides, and the next connect has to find its way back
				// (the server re-creates its mailboxes when it attaches)
				if !alive() {
					skipped++
					continue
				}
				r.Restart()
				restarts++
				closeBoth()
				out.reconnects++
			case "wait":
				time.Sleep(ms(a.Arg))
			case "intruder":
				// a different client that only knows the passphrase
				if cdS.RemoteKey() == nil {
					skipped++
					continue
				}
				if alive() {
					closeBoth()
					out.reconnects++
				}
				ictx, icancel := context.WithCancel(context.Background())
				cdI := mailbox.NewConnData(ecdhKey(c.Seed, "intruder"), nil, pass, nil, nil, nil)
				icli, _ := mailbox.NewClient(ictx, "relay", cdI, mailbox.VerifWithHashMailClient(r.Client("intruder")))
				ic := make(chan string, 1)
				go func() {
					conn, err := icli.Dial(context.Background(), "")
					if err != nil {
						ic <- ""
						return
					}
					nconn := mailbox.NewNoiseGrpcConn(cdI)
					_, _, herr := nconn.ClientHandshake(context.Background(), "", conn)
					_ = conn.Close()
					if herr == nil {
						ic <- "a client presenting only the original passphrase completed a handshake after the key-based switch"
						return
					}
					ic <- ""
				}()
				select {
				case v := <-ic:
					if v != "" {
						fail("%s", v)
					}
				case <-time.After(ms(10000 + a.Arg)):
				}
				if cdI.AuthData() != nil {
					fail("the passphrase-only client obtained the auth payload after the switch")
				}
				icancel()
				out.labels = append(out.labels, "intruder_tried")
				// an Accept that raced with the intruder may have produced a
				// connection; drain it
				select {
				case a := <-acceptCh:
					_ = a.lc.raw.Close()
				case <-time.After(5 * time.Second):
				}
			}
		}
		if wedged {
			ccancel()
			cur, curSrv = nil, nil
		}
		closeBoth()
		ccancel()
		sdone := make(chan struct{})
		go func() { _ = srv.Close(); srvWG.Wait(); close(sdone) }()
		select {
		case <-sdone:
		case <-time.After(90 * time.Second):
			fail("Server.Close / the accept loop did not finish within 90s")
		}
		if restarts > 0 {
			out.labels = append(out.labels, "relay_restarted_with_state_loss")
		}
		if junked > 0 {
			out.labels = append(out.labels, "junk_frame_before_a_reconnect")
		}
		if skipped > 0 {
			out.labels = append(out.labels, "some_actions_skipped")
		}
		_, events := r.Snapshot()
		if out.violation != "" {
			for _, e := range events {
				if e.Op != "send" && e.Op != "recv" && len(out.log) < 300 {
					tail := e.Stream
					if len(tail) > 3 {
						tail = tail[len(tail)-3:]
					}
					out.log = append(out.log, fmt.Sprintf("relay %v %s %x %s %s", e.T, e.Op, tail, e.Who, e.Note))
				}
			}
		}
	}()
	if out.reconnects > 0 {
		out.labels = append(out.labels, "reconnected")
	}
	if out.switched {
		out.labels = append(out.labels, "kk_after_switch")
	}
	out.nontrivial = out.reconnects > 0
	return
}

// echo writes p and reads it back from the echoing server.
func echo(c net.Conn, p []byte) string {
	wc := make(chan error, 1)
	go func() { _, err := safeConnWrite(c, p); wc <- err }()
	got := make([]byte, 0, len(p))
	buf := make([]byte, 70000)
	for len(got) < len(p) {
		rc := make(chan struct {
			n   int
			err error
		}, 1)
		go func() {
			n, err := safeConnRead(c, buf)
			rc <- struct {
				n   int
				err error
			}{n, err}
		}()
		select {
		case r := <-rc:
			if r.err != nil {
				return "read failed: " + r.err.Error()
			}
			got = append(got, buf[:r.n]...)
		case <-time.After(60 * time.Second):
			return "echo incomplete after 60s"
		}
	}
	if err := <-wc; err != nil {
		return "write failed: " + err.Error()
	}
	if !bytes.Equal(got, p) {
		return "echo differs from what was written"
	}
	return ""
}

func genC11(t *rapid.T) *c11Case {
	c := &c11Case{Seed: rapid.Uint64().Draw(t, "seed")}
	c.ClientMax = rapid.SampledFrom([]int{2, 2, 2, 1, 0}).Draw(t, "client_max")
	c.LatMs = rapid.SampledFrom([]int{0, 1, 50}).Draw(t, "lat")
	c.CancelDialCtx = rapid.Bool().Draw(t, "cancel_dial_ctx")
	c.DelFail = rapid.SampledFrom([]int{0, 0, 0, 1, 2}).Draw(t, "del_fail")
	c.LateKey = c.ClientMax == 2 && rapid.IntRange(0, 5).Draw(t, "late_key") == 0
	c.Actions = []sessAction{{Op: "connect", Arg: rapid.SampledFrom([]int{0, 0, 1, 500, 3000}).Draw(t, "first_offset")}}
	ag := rapid.Custom(func(t *rapid.T) sessAction {
		op := rapid.SampledFrom([]string{"connect", "connect", "transfer", "transfer", "close_client", "close_server", "wait", "intruder", "connect_early", "relay_restart", "junk"}).Draw(t, "op")
		var arg int
		switch op {
		case "connect_early":
			return sessAction{Op: "connect", Arg: rapid.SampledFrom([]int{0, 500, 3000}).Draw(t, "offset"), Early: true}
		case "connect":
			arg = rapid.SampledFrom([]int{0, 0, 1, 500, 3000, 9000}).Draw(t, "offset")
		case "wait":
			arg = rapid.SampledFrom([]int{1, 1000, 6000, 20000}).Draw(t, "ms")
		default:
			arg = rapid.IntRange(0, 70000).Draw(t, "arg")
		}
		return sessAction{Op: op, Arg: arg}
	})
	c.Actions = append(c.Actions, rapid.SliceOfN(ag, 1, 7).Draw(t, "actions")...)
	return c
}

// c11Confirmed remembers batches with a confirmed violation (see TestC11Session).
var c11Confirmed = map[string]string{}

func TestC11Session(t *testing.T) {
	const unit = "TestC11Session"
	rec := stats.New(t, "C11", unit)
	var rc c11Case
	if stats.ReplayCase(unit, &rc) {
		for i := 0; i < 2; i++ {
			if o := runC11(t, &rc, func(string) bool { return false }); o.violation != "" {
				rec.Violation(o.violation, "c11", rc)
				t.Fatalf("%s\n%s", o.violation, strings.Join(o.log, "\n"))
			}
		}
		return
	}
	if stats.ReplayMode() {
		t.Skip()
	}
	const batch = 40
	rapid.Check(t, func(rt *rapid.T) {
		// one rapid case = one batch of sessions running concurrently in
		// real time
		cases := make([]*c11Case, batch)
		for i := range cases {
			cases[i] = genC11(rt)
		}
		// rapid runs a failing property again (shrinking, final check): a
		// batch that was already found to contain a confirmed violation is
		// not run a second time
		bkey := ""
		for _, c := range cases {
			bkey += fmt.Sprintf("%+v|", *c)
		}
		if v, ok := c11Confirmed[bkey]; ok {
			rt.Fatalf("%s", v)
		}
		outs := make([]c11Outcome, batch)
		var wg sync.WaitGroup
		for i := range cases {
			i := i
			wg.Add(1)
			go func() {
				defer wg.Done()
				outs[i] = runC11(t, cases[i], rec.IsKnown)
			}()
		}
		wg.Wait()
		for i, o := range outs {
			c := cases[i]
			for _, k := range o.knownHits {
				rec.KnownHit(k)
			}
			rec.Case(o.nontrivial, fmt.Sprintf("%+v", *c), o.labels...)
			if o.nontrivial && rec.WantSample() {
				rec.Sample(c)
			}
		}
		reruns := 0
		for i, o := range outs {
			if o.violation == "" {
				continue
			}
			// These sessions run in real time, 40 at once. A report counts
			// only if the session shows it again when run on its own (the
			// replay file is then worth something); one that does not come
			// back is kept with its log as an unconfirmed observation.
			confirmed := o
			ok := false
			for try := 0; try < 2 && !ok && reruns < 4; try++ {
				reruns++
				if again := runC11(t, cases[i], rec.IsKnown); again.violation != "" {
					confirmed, ok = again, true
				}
			}
			if !ok {
				p := rec.WriteReplay("c11-unconfirmed", struct {
					*c11Case
					Msg string   `json:"unconfirmed_violation"`
					Log []string `json:"log"`
				}{cases[i], o.violation, o.log})
				rec.Inconclusive("unconfirmed (seen once among 40 concurrent sessions, not when re-run alone twice): %s [%s]", o.violation, p)
				rec.Label("unconfirmed_observation", 1)
				continue
			}
			rec.Pending(confirmed.violation, "c11", struct {
				*c11Case
				Log []string `json:"log"`
			}{cases[i], confirmed.log})
			c11Confirmed[bkey] = confirmed.violation
			rt.Fatalf("%s", confirmed.violation)
		}
	})
	rec.Done()
}
