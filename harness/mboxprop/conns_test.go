package mboxprop

import (
	"context"
	"fmt"
	"net"
	"sync"
	"time"

	"github.com/btcsuite/btcd/btcec/v2"
	"github.com/lightninglabs/lightning-node-connect/mailbox"
)

// fakeConn is an in-memory mailbox.ProxyConn / net.Conn over two halfPipes.
type fakeConn struct {
	*duplex
	name string
	once sync.Once
}

func (f *fakeConn) Close() error {
	f.once.Do(func() {
		f.in.Close()
		f.out.Close()
	})
	return nil
}

type fakeAddr string

func (a fakeAddr) Network() string { return "fake" }
func (a fakeAddr) String() string  { return string(a) }

func (f *fakeConn) LocalAddr() net.Addr                        { return fakeAddr(f.name) }
func (f *fakeConn) RemoteAddr() net.Addr                       { return fakeAddr("peer-of-" + f.name) }
func (f *fakeConn) SetDeadline(time.Time) error                { return nil }
func (f *fakeConn) SetReadDeadline(time.Time) error            { return nil }
func (f *fakeConn) SetWriteDeadline(time.Time) error           { return nil }
func (f *fakeConn) ReceiveControlMsg(mailbox.ControlMsg) error { return nil }
func (f *fakeConn) SendControlMsg(mailbox.ControlMsg) error    { return nil }
func (f *fakeConn) SetRecvTimeout(time.Duration)               {}
func (f *fakeConn) SetSendTimeout(time.Duration)               {}

var _ mailbox.ProxyConn = (*fakeConn)(nil)

// connPair is a secured connection pair of one of the three kinds.
type connPair struct {
	Kind     string // grpc | tcp
	C, S     net.Conn
	c2s, s2c *halfPipe
	auth     []byte
}

func (p *connPair) Close() {
	if p.C != nil {
		_ = p.C.Close()
	}
	if p.S != nil {
		_ = p.S.Close()
	}
}

// newGrpcPair runs NoiseGrpcConn.ClientHandshake / ServerHandshake over fake
// ProxyConns.
func newGrpcPair(seed uint64, kk bool, authLen int) (*connPair, error) {
	cli, srv := ecdhKey(seed, "cli"), ecdhKey(seed, "srv")
	pass := entropy(seed, "pass", 14)
	auth := entropy(seed, "auth", authLen)
	var cRemote, sRemote *btcec.PublicKey
	if kk {
		cRemote, sRemote = srv.PubKey(), cli.PubKey()
	}
	cdC := mailbox.NewConnData(cli, cRemote, pass, nil, nil, nil)
	cdS := mailbox.NewConnData(srv, sRemote, pass, auth, nil, nil)
	cRW, sRW, c2s, s2c := newDuplexPair()
	fc, fs := &fakeConn{duplex: cRW, name: "client"}, &fakeConn{duplex: sRW, name: "server"}
	nc, ns := mailbox.NewNoiseGrpcConn(cdC), mailbox.NewNoiseGrpcConn(cdS)
	var (
		wg         sync.WaitGroup
		cc, sc     net.Conn
		cerr, serr error
	)
	wg.Add(2)
	go func() {
		defer wg.Done()
		cc, _, cerr = nc.ClientHandshake(context.Background(), "", fc)
		if cerr != nil {
			fc.Close()
		}
	}()
	go func() {
		defer wg.Done()
		sc, _, serr = ns.ServerHandshake(fs)
		if serr != nil {
			fs.Close()
		}
	}()
	wg.Wait()
	if cerr != nil || serr != nil {
		return nil, fmt.Errorf("grpc noise handshake failed: client %v, server %v", cerr, serr)
	}
	return &connPair{Kind: "grpc", C: cc, S: sc, c2s: c2s, s2c: s2c, auth: auth}, nil
}

// newTCPPair wraps an established Machine pair into NoiseConns (verif hook).
func newTCPPair(seed uint64, kk bool, authLen int) (*connPair, error) {
	cfg := hsConfig{Pattern: "XX", IMin: 0, IMax: 2, RMin: 0, RMax: 2, Seed: seed, AuthLen: authLen, PassMode: "same"}
	if kk {
		cfg.Pattern, cfg.IKnowsR, cfg.RKnowsI = "KK", true, true
	}
	p, err := established(cfg)
	if err != nil {
		return nil, err
	}
	cRW, sRW, c2s, s2c := newDuplexPair()
	fc, fs := &fakeConn{duplex: cRW, name: "client"}, &fakeConn{duplex: sRW, name: "server"}
	return &connPair{Kind: "tcp",
		C:   mailbox.VerifNewNoiseConn(fc, p.I.m),
		S:   mailbox.VerifNewNoiseConn(fs, p.R.m),
		c2s: c2s, s2c: s2c, auth: p.auth}, nil
}

func newConnPair(kind string, seed uint64, kk bool, authLen int) (*connPair, error) {
	if kind == "grpc" {
		return newGrpcPair(seed, kk, authLen)
	}
	return newTCPPair(seed, kk, authLen)
}

// safeConnRead reads once and converts a panic into an error.
func safeConnRead(c net.Conn, buf []byte) (n int, err error) {
	defer func() {
		if r := recover(); r != nil {
			err = panicError{r}
		}
	}()
	return c.Read(buf)
}

func safeConnWrite(c net.Conn, b []byte) (n int, err error) {
	defer func() {
		if r := recover(); r != nil {
			err = panicError{r}
		}
	}()
	return c.Write(b)
}
