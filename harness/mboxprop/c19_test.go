package mboxprop

import (
	"bytes"
	"fmt"
	"strings"
	"testing"

	"github.com/lightninglabs/lightning-node-connect/mailbox"
	"pgregory.net/rapid"

	"verif/harness/stats"
)

type hexCase struct {
	Hex string `json:"hex"`
}

func unhex(s string) []byte {
	var b []byte
	fmt.Sscanf(s, "%x", &b)
	return b
}

func msgDataDeserialize(b []byte) (m *mailbox.MsgData, err error, panicked string) {
	defer func() {
		if r := recover(); r != nil {
			panicked = fmt.Sprint(r)
		}
	}()
	m = mailbox.NewMsgData(0, nil)
	err = m.Deserialize(b)
	return
}

func msgDataValueRT(version uint8, payload []byte) string {
	m := mailbox.NewMsgData(version, payload)
	b, err := m.Serialize()
	if err != nil {
		return fmt.Sprintf("MsgData{v=%d,len=%d}.Serialize failed: %v", version, len(payload), err)
	}
	got, err, p := msgDataDeserialize(b)
	if p != "" {
		return fmt.Sprintf("MsgData.Deserialize(Serialize(v=%d,len=%d)) panicked: %s", version, len(payload), p)
	}
	if err != nil {
		return fmt.Sprintf("MsgData.Deserialize(Serialize(v=%d,len=%d)) failed: %v", version, len(payload), err)
	}
	if got.ProtocolVersion() != version || !bytes.Equal(got.Payload, payload) {
		return fmt.Sprintf("MsgData round trip changed value: version %d->%d, payload len %d->%d",
			version, got.ProtocolVersion(), len(payload), len(got.Payload))
	}
	return ""
}

func msgDataBytesRT(b []byte) (bool, string) {
	m, err, p := msgDataDeserialize(b)
	if p != "" {
		return false, fmt.Sprintf("MsgData.Deserialize(%.64x.. len %d) panicked: %s", b, len(b), p)
	}
	if err != nil {
		return false, ""
	}
	return true, msgDataValueRT(m.ProtocolVersion(), m.Payload)
}

// TestC19MsgDataEnum: all 256 version bytes x payload lengths, and all byte
// strings of length <= 2 plus all 5-byte headers with a small length field.
func TestC19MsgDataEnum(t *testing.T) {
	rec := stats.New(t, "C19", "TestC19MsgDataEnum")
	var rc hexCase
	if stats.ReplayCase("TestC19MsgDataEnum", &rc) {
		if _, v := msgDataBytesRT(unhex(rc.Hex)); v != "" {
			rec.Violation(v, "bytes", rc)
			t.Fatal(v)
		}
		return
	}
	nviol := 0
	lens := []int{0, 1, 2, 4, 5, 255, 256, 65535, 65536, 1 << 20}
	for v := 0; v < 256; v++ {
		for _, l := range lens {
			payload := bytes.Repeat([]byte{byte(v) ^ 0xa5}, l)
			if l == 0 && v%2 == 0 {
				payload = nil
			}
			rec.Case(true, fmt.Sprintf("v%d l%d", v, l), "value")
			if msg := msgDataValueRT(uint8(v), payload); msg != "" {
				nviol++
				b, _ := mailbox.NewMsgData(uint8(v), payload).Serialize()
				rec.Violation(msg, "bytes", hexCase{Hex: fmt.Sprintf("%x", b)})
			}
		}
	}
	// every payload length up to 2100 and around every power of two up to
	// 128 KiB, position-dependent bytes, three version bytes
	var sweep []int
	for l := 0; l <= 2100; l++ {
		sweep = append(sweep, l)
	}
	for e := 12; e <= 17; e++ {
		for d := -3; d <= 3; d++ {
			sweep = append(sweep, (1<<e)+d)
		}
	}
	for _, l := range sweep {
		payload := make([]byte, l)
		for i := range payload {
			payload[i] = byte(i*7 + l)
		}
		for _, v := range []uint8{0, 1, 255} {
			rec.Case(true, fmt.Sprintf("sweep v%d l%d", v, l), "value_length_sweep")
			if msg := msgDataValueRT(v, payload); msg != "" {
				nviol++
				if nviol < 5 {
					rec.Violation(msg, "bytes", hexCase{Hex: fmt.Sprintf("len %d version %d", l, v)})
				}
			}
		}
	}
	// all byte strings of length 0..2
	var total, accepted int64
	try := func(b []byte) {
		total++
		ok, msg := msgDataBytesRT(b)
		if ok {
			accepted++
		}
		if msg != "" && nviol < 5 {
			nviol++
			rec.Violation(msg, "bytes", hexCase{Hex: fmt.Sprintf("%x", b)})
		}
	}
	try(nil)
	for a := 0; a < 256; a++ {
		try([]byte{byte(a)})
		for b := 0; b < 256; b++ {
			try([]byte{byte(a), byte(b)})
		}
	}
	// all headers {version, 0,0,len_hi,len_lo} with body lengths 0..8 around the claimed length
	for v := 0; v < 256; v += 51 {
		for claimed := 0; claimed < 10; claimed++ {
			for body := 0; body < 12; body++ {
				b := append([]byte{byte(v), 0, 0, 0, byte(claimed)}, bytes.Repeat([]byte{7}, body)...)
				try(b)
			}
		}
	}
	rec.CaseN(total, accepted, "C19MsgDataEnumBytes", "enum_bytes")
	rec.Sample(map[string]any{"enumerated": "MsgData: 256 versions x 10 payload lengths; all byte strings len<=2; header/body length grid", "bytes_cases": total, "accepted": accepted})
	rec.SetExhaustive(true)
	rec.Done()
	if nviol > 0 {
		t.Fatalf("%d violations", nviol)
	}
}

func TestC19MsgDataRapid(t *testing.T) {
	rec := stats.New(t, "C19", "TestC19MsgDataRapid")
	var rc hexCase
	if stats.ReplayCase("TestC19MsgDataRapid", &rc) {
		if _, v := msgDataBytesRT(unhex(rc.Hex)); v != "" {
			rec.Violation(v, "bytes", rc)
			t.Fatal(v)
		}
		return
	}
	rapid.Check(t, func(rt *rapid.T) {
		var b []byte
		if rapid.Bool().Draw(rt, "structured") {
			ver := rapid.Byte().Draw(rt, "version")
			claimed := rapid.OneOf(rapid.Uint32Range(0, 64), rapid.Uint32Range(0, 70000), rapid.Uint32()).Draw(rt, "claimed")
			body := rapid.SliceOfN(rapid.Byte(), 0, 200).Draw(rt, "body")
			b = []byte{ver, byte(claimed >> 24), byte(claimed >> 16), byte(claimed >> 8), byte(claimed)}
			b = append(b, body...)
		} else {
			b = rapid.SliceOfN(rapid.Byte(), 0, 4096).Draw(rt, "raw")
		}
		ok, v := msgDataBytesRT(b)
		rec.Case(ok, b, map[bool]string{true: "accepted", false: "rejected"}[ok])
		if ok && rec.WantSample() {
			rec.Sample(hexCase{Hex: fmt.Sprintf("%.80x", b)})
		}
		if v != "" {
			rec.Pending(v, "bytes", hexCase{Hex: fmt.Sprintf("%x", b)})
			rt.Fatalf("%s", v)
		}
	})
	rec.Done()
}

func FuzzC19MsgData(f *testing.F) {
	for _, s := range [][]byte{{0, 0, 0, 0, 0}, {0, 0, 0, 0, 2, 'h', 'i'}, {1, 0xff, 0xff, 0xff, 0xff}, {0, 0x80, 0, 0, 0}, {}} {
		f.Add(s)
	}
	f.Fuzz(func(t *testing.T, b []byte) {
		if _, v := msgDataBytesRT(b); v != "" {
			t.Fatal(v)
		}
	})
}

// TestC19MsgDataHistory: the bytes returned by Serialize stay valid while
// later control messages are serialised (SendControlMsg hands them to the GBN
// send queue, which keeps them for retransmission), and decoded payloads stay
// valid while later messages are decoded.
func TestC19MsgDataHistory(t *testing.T) {
	const unit = "TestC19MsgDataHistory"
	rec := stats.New(t, "C19", unit)
	if stats.ReplayMode() {
		t.Skip()
	}
	rapid.Check(t, func(rt *rapid.T) {
		n := rapid.IntRange(2, 12).Draw(rt, "n")
		vers := make([]uint8, n)
		pls := make([][]byte, n)
		wire := make([][]byte, n)
		for i := 0; i < n; i++ {
			vers[i] = rapid.Uint8().Draw(rt, "version")
			pls[i] = rapid.SliceOfN(rapid.Byte(), 0, 300).Draw(rt, "payload")
			b, err := mailbox.NewMsgData(vers[i], append([]byte(nil), pls[i]...)).Serialize()
			if err != nil {
				rt.Fatalf("Serialize: %v", err)
			}
			wire[i] = b
		}
		// one MsgData object is reused for decoding, as a receive loop might
		decoded := make([]*mailbox.MsgData, n)
		for i := 0; i < n; i++ {
			m, err, p := msgDataDeserialize(wire[i])
			if p != "" || err != nil {
				v := fmt.Sprintf("message #%d (version %d, %d bytes) no longer deserialises after %d later messages were serialised: %v %s", i, vers[i], len(pls[i]), n-1-i, err, p)
				rec.Pending(v, "history", map[string]any{"n": n})
				rt.Fatalf("%s", v)
			}
			decoded[i] = m
		}
		for i := 0; i < n; i++ {
			if decoded[i].ProtocolVersion() != vers[i] || !bytes.Equal(decoded[i].Payload, pls[i]) {
				v := fmt.Sprintf("message #%d was serialised with version %d and %d payload bytes; after the other %d messages were serialised and decoded it reads version %d, %d bytes (equal content: %v)",
					i, vers[i], len(pls[i]), n-1, decoded[i].ProtocolVersion(), len(decoded[i].Payload), bytes.Equal(decoded[i].Payload, pls[i]))
				rec.Pending(v, "history", map[string]any{"n": n})
				rt.Fatalf("%s", v)
			}
		}
		rec.Case(true, fmt.Sprintf("%v/%d", vers, len(pls[0])), "serialisations_kept_across_later_ones")
		if rec.WantSample() {
			rec.Sample(map[string]any{"versions": vers})
		}
	})
	rec.Done()
}

// TestC19MsgDataReused: one MsgData value with a past: serialised, its Payload
// assigned anew (same or another length), serialised again; also a value that
// was filled by Deserialize first and one that Deserialize fills twice. What
// the value holds at the moment of Serialize is what must come back.
func TestC19MsgDataReused(t *testing.T) {
	const unit = "TestC19MsgDataReused"
	rec := stats.New(t, "C19", unit)
	if stats.ReplayMode() {
		t.Skip()
	}
	rapid.Check(t, func(rt *rapid.T) {
		ver := rapid.Uint8().Draw(rt, "version")
		m := mailbox.NewMsgData(ver, rapid.SliceOfN(rapid.Byte(), 0, 60).Draw(rt, "payload"))
		var hist []string
		steps := rapid.IntRange(2, 8).Draw(rt, "steps")
		for i := 0; i < steps; i++ {
			switch rapid.IntRange(0, 4).Draw(rt, "mutate") {
			case 0:
				np := make([]byte, len(m.Payload))
				for j := range np {
					np[j] = rapid.Byte().Draw(rt, "b")
				}
				m.Payload = np
				hist = append(hist, "payload replaced, same length")
			case 1:
				m.Payload = rapid.SliceOfN(rapid.Byte(), 0, 60).Draw(rt, "payload2")
				hist = append(hist, "payload replaced")
			case 2:
				// the value is (re)filled from the wire encoding of another
				// message, as connKit.Read does with its receive buffer
				v2 := rapid.Uint8().Draw(rt, "version2")
				other, err := mailbox.NewMsgData(v2, rapid.SliceOfN(rapid.Byte(), 0, 60).Draw(rt, "payload3")).Serialize()
				if err != nil {
					rt.Fatalf("Serialize: %v", err)
				}
				if err := m.Deserialize(other); err != nil {
					rt.Fatalf("Deserialize of a fresh serialisation: %v", err)
				}
				hist = append(hist, "filled by Deserialize")
			default:
				hist = append(hist, "unchanged")
			}
			wantV, wantP := m.ProtocolVersion(), append([]byte(nil), m.Payload...)
			b, err := m.Serialize()
			if err != nil {
				rt.Fatalf("Serialize: %v", err)
			}
			got, derr, p := msgDataDeserialize(b)
			if p != "" || derr != nil || got.ProtocolVersion() != wantV || !bytes.Equal(got.Payload, wantP) {
				v := fmt.Sprintf("a MsgData value serialised for the %d. time (%s) holds version %d and %d payload bytes, but its serialisation decodes differently (err %v %s)", i+1, strings.Join(hist, "; "), wantV, len(wantP), derr, p)
				rec.Pending(v, "reused", map[string]any{"history": hist})
				rt.Fatalf("%s", v)
			}
		}
		rec.Case(true, fmt.Sprintf("%v|%d", hist, ver), "value_reserialised_after_assignment")
		if rec.WantSample() {
			rec.Sample(map[string]any{"history": hist})
		}
	})
	rec.Done()
}
