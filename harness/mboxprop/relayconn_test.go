package mboxprop

import (
	"context"
	"crypto/sha512"
	"fmt"
	"net"
	"sync"
	"time"

	"github.com/btcsuite/btclog/v2"
	"github.com/lightninglabs/lightning-node-connect/hashmailrpc"
	"github.com/lightninglabs/lightning-node-connect/mailbox"

	"verif/harness/relay"
)

// mailboxPair is a plain mailbox connection pair (connKit over gbn over the
// in-memory relay).
type mailboxPair struct {
	R      *relay.Relay
	C      *mailbox.ClientConn
	S      *mailbox.ServerConn
	SID    [64]byte
	cancel context.CancelFunc
}

func sidFromSeed(seed uint64) [64]byte {
	return sha512.Sum512(entropy(seed, "sid", 14))
}

// newMailboxPair creates a server and a client connection over a fresh relay.
// Both constructors block until the GBN handshake has completed, so they run
// concurrently. Must be called inside a bubble for virtual time.
func newMailboxPair(seed uint64, latency time.Duration) (*mailboxPair, error) {
	r := relay.New(latency)
	return newMailboxPairOn(r, seed)
}

func newMailboxPairOn(r *relay.Relay, seed uint64) (*mailboxPair, error) {
	p := &mailboxPair{R: r, SID: sidFromSeed(seed)}
	ctx, cancel := context.WithCancel(context.Background())
	p.cancel = cancel
	// Both cipher boxes exist before anyone connects (as they do for every
	// connection but the very first of a session). Otherwise the client's
	// first receive attempt finds no stream, backs off for 2s, and that
	// back-off ties with its 2s GBN handshake timeout (a SYN retransmission
	// whose second reply kills the fresh connection: C10's recorded finding).
	for _, toClient := range []bool{true, false} {
		id := mailbox.GetSID(p.SID, toClient)
		_, _ = r.Client("setup").NewCipherBox(ctx, &hashmailrpc.CipherBoxAuth{
			Desc: &hashmailrpc.CipherBoxDesc{StreamId: id[:]},
		})
	}
	var (
		wg         sync.WaitGroup
		cerr, serr error
	)
	wg.Add(2)
	go func() {
		defer wg.Done()
		p.S, serr = mailbox.NewServerConn(ctx, "relay", r.Client("server"), p.SID, btclog.Disabled,
			func(mailbox.ServerStatus) {})
	}()
	go func() {
		defer wg.Done()
		p.C, cerr = mailbox.NewClientConn(ctx, p.SID, "relay", r.Client("client"), btclog.Disabled,
			func(mailbox.ClientStatus) {})
	}()
	wg.Wait()
	if cerr != nil || serr != nil {
		cancel()
		return nil, fmt.Errorf("mailbox conn setup failed: client %v, server %v", cerr, serr)
	}
	return p, nil
}

func (p *mailboxPair) Close() {
	p.CloseWithin(0)
}

// CloseWithin closes both ends; with d > 0 it gives up after d (the Close
// calls are left running) and reports which end did not return. The contexts
// are cancelled in any case.
func (p *mailboxPair) CloseWithin(d time.Duration) (hung []string) {
	done := [2]chan struct{}{make(chan struct{}), make(chan struct{})}
	go func() { _ = p.C.Close(); close(done[0]) }()
	go func() { _ = p.S.Close(); close(done[1]) }()
	var to <-chan time.Time
	if d > 0 {
		to = time.After(d)
	}
	for i, name := range []string{"client", "server"} {
		select {
		case <-done[i]:
		case <-to:
			to = time.After(0)
			hung = append(hung, name)
		}
	}
	p.cancel()
	return hung
}

// Refresh closes both ends and builds the next connection of the session the
// way Server.Accept / Client.Dial do (RefreshServerConn / RefreshClientConn).
// It reports false if the new pair is not up within d.
func (p *mailboxPair) Refresh(d time.Duration) bool {
	_ = p.C.Close()
	_ = p.S.Close()
	type res struct {
		c *mailbox.ClientConn
		s *mailbox.ServerConn
	}
	rc, rs := make(chan res, 1), make(chan res, 1)
	ctx, cancel := context.WithCancel(context.Background())
	go func() { c2, _ := mailbox.RefreshClientConn(ctx, p.C); rc <- res{c: c2} }()
	go func() { s2, _ := mailbox.RefreshServerConn(p.S); rs <- res{s: s2} }()
	var c2 *mailbox.ClientConn
	var s2 *mailbox.ServerConn
	to := time.After(d)
	for got := 0; got < 2; {
		select {
		case x := <-rc:
			c2, got = x.c, got+1
		case x := <-rs:
			s2, got = x.s, got+1
		case <-to:
			cancel()
			return false
		}
	}
	if c2 == nil || s2 == nil {
		cancel()
		return false
	}
	old := p.cancel
	p.C, p.S, p.cancel = c2, s2, func() { cancel(); old() }
	return true
}

// RefreshAlive moves the pair to the (1+k)-th connection of the session and
// makes sure that connection is alive: a later connection can be killed right
// after its handshake by what the previous one left in the relay streams (a
// second SYN reply, a FIN: the recorded C10 findings), so a first exchange in
// both directions must succeed and still succeed three seconds later. It
// reports false if the caller should skip the case.
func (p *mailboxPair) RefreshAlive(k int) bool {
	if k <= 0 {
		return true
	}
	for i := 0; i < k; i++ {
		if !p.Refresh(60 * time.Second) {
			return false
		}
	}
	for round := 0; round < 2; round++ {
		if round == 1 {
			time.Sleep(3 * time.Second)
		}
		for _, d := range []struct{ w, r net.Conn }{{p.C, p.S}, {p.S, p.C}} {
			d := d
			go func() { _, _ = d.w.Write([]byte("hello")) }()
			buf := make([]byte, 16)
			ok := make(chan bool, 1)
			go func() { n, err := d.r.Read(buf); ok <- err == nil && string(buf[:n]) == "hello" }()
			select {
			case good := <-ok:
				if !good {
					return false
				}
			case <-time.After(30 * time.Second):
				return false
			}
		}
	}
	return true
}

// closeWithin calls the closers concurrently and reports the names of those
// that did not return within d.
func closeWithin(d time.Duration, names []string, closers ...func() error) (hung []string) {
	done := make([]chan struct{}, len(closers))
	for i, c := range closers {
		done[i] = make(chan struct{})
		go func(c func() error, ch chan struct{}) { _ = c(); close(ch) }(c, done[i])
	}
	to := time.After(d)
	for i := range closers {
		select {
		case <-done[i]:
		case <-to:
			to = time.After(0)
			hung = append(hung, names[i])
		}
	}
	return hung
}

var _ net.Conn = (*mailbox.ClientConn)(nil)
