package mboxprop

import (
	"context"
	"crypto/sha512"
	"fmt"
	"net"
	"sync"
	"time"

	"github.com/btcsuite/btclog/v2"
	"github.com/lightninglabs/lightning-node-connect/hashmailrpc"
	"github.com/lightninglabs/lightning-node-connect/mailbox"

	"verif/harness/relay"
)

// mailboxPair is a plain mailbox connection pair (connKit over gbn over the
// in-memory relay).
type mailboxPair struct {
	R      *relay.Relay
	C      *mailbox.ClientConn
	S      *mailbox.ServerConn
	SID    [64]byte
	cancel context.CancelFunc
}

func sidFromSeed(seed uint64) [64]byte {
	return sha512.Sum512(entropy(seed, "sid", 14))
}

// newMailboxPair creates a server and a client connection over a fresh relay.
// Both constructors block until the GBN handshake has completed, so they run
// concurrently. Must be called inside a bubble for virtual time.
func newMailboxPair(seed uint64, latency time.Duration) (*mailboxPair, error) {
	r := relay.New(latency)
	return newMailboxPairOn(r, seed)
}

func newMailboxPairOn(r *relay.Relay, seed uint64) (*mailboxPair, error) {
	p := &mailboxPair{R: r, SID: sidFromSeed(seed)}
	ctx, cancel := context.WithCancel(context.Background())
	p.cancel = cancel
	// Both cipher boxes exist before anyone connects (as they do for every
	// connection but the very first of a session). Otherwise the client's
	// first receive attempt finds no stream, backs off for 2s, and that
	// back-off ties with its 2s GBN handshake timeout (a SYN retransmission
	// whose second reply kills the fresh connection: C10's recorded finding).
	for _, toClient := range []bool{true, false} {
		id := mailbox.GetSID(p.SID, toClient)
		_, _ = r.Client("setup").NewCipherBox(ctx, &hashmailrpc.CipherBoxAuth{
			Desc: &hashmailrpc.CipherBoxDesc{StreamId: id[:]},
		})
	}
	var (
		wg         sync.WaitGroup
		cerr, serr error
	)
	wg.Add(2)
	go func() {
		defer wg.Done()
		p.S, serr = mailbox.NewServerConn(ctx, "relay", r.Client("server"), p.SID, btclog.Disabled,
			func(mailbox.ServerStatus) {})
	}()
	go func() {
		defer wg.Done()
		p.C, cerr = mailbox.NewClientConn(ctx, p.SID, "relay", r.Client("client"), btclog.Disabled,
			func(mailbox.ClientStatus) {})
	}()
	wg.Wait()
	if cerr != nil || serr != nil {
		cancel()
		return nil, fmt.Errorf("mailbox conn setup failed: client %v, server %v", cerr, serr)
	}
	return p, nil
}

func (p *mailboxPair) Close() {
	var wg sync.WaitGroup
	wg.Add(2)
	go func() { defer wg.Done(); _ = p.C.Close() }()
	go func() { defer wg.Done(); _ = p.S.Close() }()
	wg.Wait()
	p.cancel()
}

var _ net.Conn = (*mailbox.ClientConn)(nil)
