package mboxprop

import (
	"fmt"
	"net"
	"os"
	"strings"
	"sync"
	"testing"
	"testing/synctest"
	"time"

	"github.com/lightninglabs/lightning-node-connect/mailbox"
	"pgregory.net/rapid"

	"verif/harness/relay"
	"verif/harness/stats"
	"verif/harness/vnet"
)

// ---------- C12 at the mailbox layer ----------

type mboxClose struct {
	Seed    uint64 `json:"seed"`
	Who     string `json:"who"`    // client | server | both
	Calls   int    `json:"calls"`  // Close calls per closing side (concurrent)
	AtMs    int    `json:"at_ms"`  // when, after the pair is up
	Writes  int    `json:"writes"` // messages in flight in each direction
	LatMs   int    `json:"lat_ms"`
	DropAll bool   `json:"drop_all"` // the relay swallows everything from AtMs-1 on (FIN cannot arrive)
	// Refreshes: the connection that is closed is the (1+Refreshes)-th of
	// the session.
	Refreshes int `json:"refreshes,omitempty"`
}

// closeSkipped is set by runMboxClose when a later connection of the session
// did not come up alive.
var closeSkipped bool

func runMboxClose(t *testing.T, c *mboxClose) (violation string) {
	closeSkipped = false
	bo := vnet.InBubble(t, 120*time.Second, func() {
		r := relay.New(ms(c.LatMs))
		p, err := newMailboxPairOn(r, c.Seed)
		if err != nil {
			violation = "setup: " + err.Error()
			return
		}
		if !p.RefreshAlive(c.Refreshes) {
			closeSkipped = true
			p.Close()
			return
		}
		var wg sync.WaitGroup
		type rd struct {
			err error
			at  time.Duration
		}
		start := time.Now()
		reads := make(chan struct {
			who string
			rd
		}, 2)
		for name, conn := range map[string]net.Conn{"client": p.C, "server": p.S} {
			name, conn := name, conn
			wg.Add(2)
			go func() { // reader: until error
				defer wg.Done()
				buf := make([]byte, 4096)
				for {
					if _, err := conn.Read(buf); err != nil {
						reads <- struct {
							who string
							rd
						}{name, rd{err, time.Since(start)}}
						return
					}
				}
			}()
			go func() { // writer
				defer wg.Done()
				for i := 0; i < c.Writes; i++ {
					if _, err := conn.Write(entropy(c.Seed, name, 200)); err != nil {
						return
					}
				}
			}()
		}
		time.Sleep(ms(c.AtMs))
		if c.DropAll {
			drop := make([]relay.Decision, 100000)
			for i := range drop {
				drop[i] = relay.Decision{Kind: "drop"}
			}
			for _, toClient := range []bool{true, false} {
				id := mailbox.GetSID(p.SID, toClient)
				r.SetScript(id[:], drop)
			}
			r.Arm(true)
			time.Sleep(time.Millisecond)
		}
		closers := map[string]net.Conn{}
		if c.Who == "client" || c.Who == "both" {
			closers["client"] = p.C
		}
		if c.Who == "server" || c.Who == "both" {
			closers["server"] = p.S
		}
		var cw sync.WaitGroup
		var mu sync.Mutex
		var worst time.Duration
		t0 := time.Now()
		for _, conn := range closers {
			for k := 0; k < c.Calls; k++ {
				conn := conn
				cw.Add(1)
				go func() {
					defer cw.Done()
					s := time.Now()
					_ = conn.Close()
					mu.Lock()
					if d := time.Since(s); d > worst {
						worst = d
					}
					mu.Unlock()
				}()
			}
		}
		cw.Wait()
		// Close is bounded by the FIN send timeout (1s)
		if worst > time.Second+50*time.Millisecond {
			violation = fmt.Sprintf("a mailbox conn Close call took %v of virtual time", worst)
		}
		for name := range closers {
			done := p.C.Done()
			if name == "server" {
				done = p.S.Done()
			}
			select {
			case <-done:
			default:
				violation = name + ": Done() not closed after Close returned"
			}
		}
		// every Read fails: the closed sides at once, the peer within one
		// latency (FIN) or, if the FIN cannot arrive, by keepalive
		limit := ms(2*c.LatMs) + 100*time.Millisecond
		if c.DropAll {
			limit = 7*time.Second + 3*time.Second + 20*time.Second
		}
		got := map[string]rd{}
		deadline := time.After(limit)
	loop:
		for len(got) < 2 {
			select {
			case x := <-reads:
				got[x.who] = x.rd
			case <-deadline:
				break loop
			}
		}
		for _, name := range []string{"client", "server"} {
			if _, ok := got[name]; !ok && violation == "" {
				why := "although its peer's FIN was delivered"
				if _, closed := closers[name]; closed {
					why = "although it was closed"
				} else if c.DropAll {
					why = "although keepalive (5s/7s ping, 3s pong) should have fired"
				}
				violation = fmt.Sprintf("%s Read still blocked %v after Close (%v after t0) %s", name, limit, time.Since(t0), why)
			}
		}
		// later calls fail
		for name, conn := range closers {
			if _, err := conn.Write([]byte("late")); err == nil && violation == "" {
				violation = name + ": Write succeeded after Close"
			}
		}
		p.Close()
		wg.Wait()
		time.Sleep(10 * time.Minute)
		synctest.Wait()
		var leaked []string
		for _, g := range vnet.BubbleGoroutines() {
			if strings.Contains(g, "lightning-node-connect/") {
				leaked = append(leaked, g)
			}
		}
		if len(leaked) > 0 && violation == "" {
			violation = fmt.Sprintf("%d goroutine(s) of the connections still running 10 virtual minutes after Close:\n%s", len(leaked), leaked[0])
		}
	})
	if bo.Panic != "" && violation == "" {
		violation = "after Close: " + bo.Panic
	}
	return
}

func TestC12MailboxClose(t *testing.T) {
	const unit = "TestC12MailboxClose"
	rec := stats.New(t, "C12", unit)
	var rc mboxClose
	if stats.ReplayCase(unit, &rc) {
		if v := runMboxClose(t, &rc); v != "" {
			rec.Violation(v, "mbox_close", rc)
			t.Fatal(v)
		}
		return
	}
	if stats.ReplayMode() {
		t.Skip()
	}
	rapid.Check(t, func(rt *rapid.T) {
		c := &mboxClose{
			Seed:      rapid.Uint64().Draw(rt, "seed"),
			Who:       rapid.SampledFrom([]string{"client", "server", "both"}).Draw(rt, "who"),
			Calls:     rapid.IntRange(1, 3).Draw(rt, "calls"),
			AtMs:      rapid.SampledFrom([]int{0, 1, 50, 1000, 6000, 20000}).Draw(rt, "at"),
			Writes:    rapid.SampledFrom([]int{0, 1, 5, 40}).Draw(rt, "writes"),
			LatMs:     rapid.SampledFrom([]int{0, 1, 50}).Draw(rt, "lat"),
			DropAll:   rapid.IntRange(0, 3).Draw(rt, "drop_all") == 0,
			Refreshes: rapid.SampledFrom([]int{0, 0, 1, 2}).Draw(rt, "refreshes"),
		}
		if c.DropAll && c.Writes > 5 {
			// keep the GBN window (N=20) from filling up: an endpoint whose
			// window is full of unacknowledged data cannot ping and never
			// notices a dead peer (recorded finding gbn-dead-peer-full-window)
			c.Writes = 5
		}
		rec.Current("mbox_close", c)
		v := runMboxClose(t, c)
		labels := []string{"mailbox_close_" + c.Who}
		if c.DropAll {
			labels = append(labels, "fin_cannot_arrive")
		}
		if c.Refreshes > 0 && !closeSkipped {
			labels = append(labels, "mailbox_close_later_connection")
		}
		if closeSkipped {
			labels = append(labels, "later_connection_not_established")
		}
		rec.Case((c.Calls > 1 || c.Writes > 0) && !closeSkipped, fmt.Sprintf("%+v", *c), labels...)
		if rec.WantSample() {
			rec.Sample(c)
		}
		if v != "" {
			rec.Pending(v, "mbox_close", c)
			rt.Fatalf("%s", v)
		}
	})
	rec.Done()
}

// ---------- C13 at the mailbox layer (5s / 7s ping, 3s pong) ----------

var debugMbox = os.Getenv("VERIF_DEBUG") != ""

type mboxKeepalive struct {
	Seed     uint64 `json:"seed"`
	IdleMs   []int  `json:"idle_ms"`    // idle periods on a healthy relay, each followed by an echo
	DeadAtMs int    `json:"dead_at_ms"` // then the relay swallows everything
	LatMs    int    `json:"lat_ms"`
	Pending  int    `json:"pending"` // writes issued right before the relay goes silent
	// Refreshes: the checks run on the (1+Refreshes)-th connection of the
	// session (RefreshClientConn / RefreshServerConn).
	Refreshes int `json:"refreshes,omitempty"`
}

func runMboxKeepalive(t *testing.T, c *mboxKeepalive) (violation string) {
	v, _ := runMboxKeepaliveX(t, c)
	return v
}

func runMboxKeepaliveX(t *testing.T, c *mboxKeepalive) (violation string, skipped bool) {
	bo := vnet.InBubble(t, 180*time.Second, func() {
		r := relay.New(ms(c.LatMs))
		p, err := newMailboxPairOn(r, c.Seed)
		if err != nil {
			violation = "setup: " + err.Error()
			return
		}
		defer p.Close()
		if !p.RefreshAlive(c.Refreshes) {
			skipped = true
			return
		}
		start := time.Now()
		type ev struct {
			who string
			err error
			at  time.Duration
		}
		failed := make(chan ev, 4)
		data := make(chan string, 64)
		for name, conn := range map[string]net.Conn{"client": p.C, "server": p.S} {
			name, conn := name, conn
			go func() {
				buf := make([]byte, 4096)
				for {
					n, err := conn.Read(buf)
					if err != nil {
						failed <- ev{name, err, time.Since(start)}
						return
					}
					data <- name + ":" + string(buf[:n])
				}
			}()
		}
		// live phases: idle, then one message each way must arrive
		for i, idle := range c.IdleMs {
			time.Sleep(ms(idle))
			select {
			case f := <-failed:
				violation = fmt.Sprintf("%s Read failed (%v) at %v during idle phase %d (%dms) on a healthy relay", f.who, f.err, f.at, i, idle)
				return
			default:
			}
			go func() { _, _ = p.C.Write([]byte(fmt.Sprintf("c%d", i))) }()
			go func() { _, _ = p.S.Write([]byte(fmt.Sprintf("s%d", i))) }()
			want := map[string]bool{fmt.Sprintf("server:c%d", i): true, fmt.Sprintf("client:s%d", i): true}
			to := time.After(60 * time.Second)
			for len(want) > 0 {
				select {
				case d := <-data:
					delete(want, d)
				case f := <-failed:
					violation = fmt.Sprintf("%s Read failed (%v) after idle phase %d on a healthy relay", f.who, f.err, i)
					return
				case <-to:
					violation = fmt.Sprintf("messages sent after %dms idle were not delivered within 60s on a healthy relay", idle)
					return
				}
			}
		}
		// dead phase
		time.Sleep(ms(c.DeadAtMs))
		for i := 0; i < c.Pending; i++ {
			go func() { _, _ = p.C.Write([]byte("pending")) }()
		}
		drop := make([]relay.Decision, 200000)
		for i := range drop {
			drop[i] = relay.Decision{Kind: "drop"}
		}
		for _, toClient := range []bool{true, false} {
			id := mailbox.GetSID(p.SID, toClient)
			r.SetScript(id[:], drop)
		}
		r.Arm(true)
		t0 := time.Now()
		// both ends must notice: ping (5s server / 7s client) + pong 3s, plus
		// resend/sync waits of the adaptive timeout (>= 1s, boosted)
		// The adaptive resend timeout is 5 x RTT (at least 1s), boosted by
		// 50% per resend round, and the send loop serves the pong timer only
		// between resends, each of which waits up to three resend timeouts
		// for the sync: allow twelve un-boosted resend timeouts, at least 30s.
		r0 := 5 * 2 * ms(c.LatMs)
		if r0 < time.Second {
			r0 = time.Second
		}
		slack := 12 * r0
		if slack < 30*time.Second {
			slack = 30 * time.Second
		}
		limit := 7*time.Second + 3*time.Second + slack
		got := map[string]bool{}
		to := time.After(limit)
		for len(got) < 2 {
			select {
			case f := <-failed:
				got[f.who] = true
				if debugMbox {
					fmt.Printf("DBG %s closed %v after silence\n", f.who, time.Since(t0))
				}
			case <-data:
			case <-to:
				var open []string
				for _, n := range []string{"client", "server"} {
					if !got[n] {
						open = append(open, n)
					}
				}
				violation = fmt.Sprintf("%v still open %v after the relay went silent (limit %v) with %d writes pending", open, time.Since(t0), limit, c.Pending)
				return
			}
		}
	})
	if bo.Panic != "" && !bo.Deadlock && violation == "" {
		violation = "panic: " + bo.Panic
	}
	return
}

func TestC13MailboxKeepalive(t *testing.T) {
	const unit = "TestC13MailboxKeepalive"
	rec := stats.New(t, "C13", unit)
	var rc mboxKeepalive
	if stats.ReplayCase(unit, &rc) {
		if v := runMboxKeepalive(t, &rc); v != "" {
			rec.Violation(v, "mbox_keepalive", rc)
			t.Fatal(v)
		}
		return
	}
	if stats.ReplayMode() {
		t.Skip()
	}
	rapid.Check(t, func(rt *rapid.T) {
		c := &mboxKeepalive{
			Seed:      rapid.Uint64().Draw(rt, "seed"),
			IdleMs:    rapid.SliceOfN(rapid.SampledFrom([]int{0, 1000, 4999, 5000, 5001, 6999, 7000, 7001, 12000, 60000, 3600000}), 0, 3).Draw(rt, "idle"),
			DeadAtMs:  rapid.SampledFrom([]int{0, 1, 2500, 4999, 5000, 6999, 7000, 9000}).Draw(rt, "dead_at"),
			LatMs:     rapid.SampledFrom([]int{0, 1, 50, 400}).Draw(rt, "lat"),
			Pending:   rapid.SampledFrom([]int{0, 0, 1, 5, 19}).Draw(rt, "pending"),
			Refreshes: rapid.SampledFrom([]int{0, 0, 1, 2}).Draw(rt, "refreshes"),
		}
		rec.Current("mbox_keepalive", c)
		v, skipped := runMboxKeepaliveX(t, c)
		total := 0
		for _, x := range c.IdleMs {
			total += x
		}
		labels := []string{"mailbox_keepalive"}
		if c.Refreshes > 0 && !skipped {
			labels = append(labels, "mailbox_keepalive_later_connection")
		}
		if skipped {
			labels = append(labels, "later_connection_not_established")
		}
		rec.Case((total > 50000 || c.Pending > 0) && !skipped, fmt.Sprintf("%+v", *c), labels...)
		if rec.WantSample() {
			rec.Sample(c)
		}
		if v != "" {
			rec.Pending(v, "mbox_keepalive", c)
			rt.Fatalf("%s", v)
		}
	})
	rec.Done()
}
