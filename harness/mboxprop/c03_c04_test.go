package mboxprop

import (
	"bytes"
	"fmt"
	"sort"
	"strings"
	"testing"

	"github.com/lightninglabs/lightning-node-connect/mailbox"
	"pgregory.net/rapid"

	"verif/harness/stats"
)

// ---------- C03 ----------

func secretsMatch(c hsConfig) bool {
	if c.Pattern == "KK" {
		return c.IKnowsR && c.RKnowsI && c.Impostor == ""
	}
	return c.PassMode == "same" || c.PassMode == ""
}

func genC03(t *rapid.T) hsConfig {
	c := hsConfig{Seed: rapid.Uint64().Draw(t, "seed")}
	if rapid.IntRange(0, 2).Draw(t, "kk") == 0 {
		c.Pattern = "KK"
		c.IMin = rapid.IntRange(0, 2).Draw(t, "imin")
		c.IMax = 2
		c.RMin = rapid.IntRange(0, 2).Draw(t, "rmin")
		c.RMax = 2
		c.IKnowsR = rapid.IntRange(0, 2).Draw(t, "i_knows_r") != 0
		c.RKnowsI = rapid.IntRange(0, 2).Draw(t, "r_knows_i") != 0
		// a party that only knows the public halves of the pairing
		c.Impostor = rapid.SampledFrom([]string{"", "", "", "initiator", "responder", "initiator", "responder", "initiator_fails", "responder_fails", "both_fail"}).Draw(t, "impostor")
	} else {
		c.Pattern = "XX"
		// compatible ranges: rmin <= imin <= rmax, imin <= rmax <= imax
		c.RMax = rapid.IntRange(0, 2).Draw(t, "rmax")
		c.IMin = rapid.IntRange(0, c.RMax).Draw(t, "imin")
		c.RMin = rapid.IntRange(0, c.IMin).Draw(t, "rmin")
		c.IMax = rapid.IntRange(c.RMax, 2).Draw(t, "imax")
		c.PassMode = rapid.SampledFrom([]string{"same", "same", "same", "bit", "bit", "random", "short", "pad0", "trail0"}).Draw(t, "pass_mode")
		c.PassBit = rapid.IntRange(0, 111).Draw(t, "pass_bit")
	}
	c.AuthLen = rapid.OneOf(rapid.SampledFrom([]int{16, 32, 64, 400, 498}), rapid.IntRange(16, 2000), rapid.SampledFrom([]int{65535, 65536, 200000})).Draw(t, "auth_len")
	if c.RMax == 0 && c.Pattern == "XX" && c.AuthLen > 498 {
		c.AuthLen = 498 // the fixed-size v0 field; larger payloads are C04's subject
	}
	c.StaleAuth = rapid.IntRange(0, 3).Draw(t, "stale_auth") == 0
	return c
}

func runC03(c hsConfig) (violation string) {
	p := newHSPair(c)
	if c.Pattern == "XX" && !secretsMatch(c) && c.Seed%2 == 0 {
		// a node hosts many sessions: each of the two (different)
		// passphrases has already paired a session of its own in this
		// process when the mismatching attempt is made
		for i, pass := range [][]byte{p.passI, p.passR} {
			pc := hsConfig{Pattern: "XX", IMin: 0, IMax: 2, RMin: 0, RMax: 2, Seed: c.Seed + uint64(i) + 1, AuthLen: 16, PassMode: "same", passOverride: pass}
			if _, err := established(pc); err != nil {
				return "an earlier pairing with one of the two passphrases failed: " + err.Error()
			}
		}
	}
	p.run()
	if isPanic(p.I.err) || isPanic(p.R.err) {
		return fmt.Sprintf("panic during handshake: initiator %v, responder %v", p.I.err, p.R.err)
	}
	match := secretsMatch(c)
	if match {
		if p.I.err != nil || p.R.err != nil {
			return fmt.Sprintf("matching secrets but the handshake failed: initiator %v, responder %v", p.I.err, p.R.err)
		}
		if !bytes.Equal(p.I.cd.AuthData(), p.auth) {
			return "matching secrets: initiator's auth data differs from the responder's payload"
		}
		return ""
	}
	if p.R.err == nil {
		return "mismatching secrets but the responder completed the handshake"
	}
	if p.I.err == nil {
		return "mismatching secrets but the initiator completed the handshake"
	}
	if n := len(p.r2i.Written); n != 0 {
		return fmt.Sprintf("mismatching secrets: the responder emitted %d handshake message(s) before aborting", n)
	}
	if !bytes.Equal(p.I.cd.AuthData(), staleAuth(c)) || (p.I.cd.AuthData() != nil) != c.StaleAuth {
		return "mismatching secrets: the initiator's auth data changed"
	}
	if len(p.I.gotAuth)+len(p.R.gotAuth)+len(p.I.gotRemote)+len(p.R.gotRemote) != 0 {
		return "mismatching secrets: an onAuthData/onRemoteStatic callback fired"
	}
	if len(p.auth) >= 16 {
		for _, w := range append(append([][]byte{}, p.r2i.Written...), p.i2r.Written...) {
			if bytes.Contains(w, p.auth[:16]) {
				return "the auth payload appears in clear text on the wire"
			}
		}
	}
	return ""
}

func TestC03Secrets(t *testing.T) {
	const unit = "TestC03Secrets"
	rec := stats.New(t, "C03", unit)
	var rc hsConfig
	if stats.ReplayCase(unit, &rc) {
		if v := runC03(rc); v != "" {
			rec.Violation(v, "hs", rc)
			t.Fatal(v)
		}
		return
	}
	if stats.ReplayMode() {
		t.Skip()
	}
	rapid.Check(t, func(rt *rapid.T) {
		c := genC03(rt)
		rec.Current("hs", c)
		v := runC03(c)
		m := secretsMatch(c)
		lab := c.Pattern + "_match"
		if !m {
			lab = c.Pattern + "_mismatch_" + c.PassMode
			if c.Pattern == "KK" {
				lab = fmt.Sprintf("KK_mismatch_i%v_r%v", c.IKnowsR, c.RKnowsI)
				if c.Impostor != "" {
					lab = "KK_impostor_" + c.Impostor
				}
			}
		}
		rec.Case(!m, fmt.Sprintf("%+v", c), lab)
		if !m && rec.WantSample() {
			rec.Sample(c)
		}
		if v != "" {
			rec.Pending(v, "hs", c)
			rt.Fatalf("%s", v)
		}
	})
	rec.Done()
}

// ---------- C04 ----------

// mitmSpec describes what the relay does to the handshake messages.
type mitmSpec struct {
	Kind string `json:"kind"` // none | version | flip | rewrite
	// version: replacement version byte per act (-1 keep), acts 1..3
	Ver [3]int `json:"ver,omitempty"`
	// flip: act index (0-based over all messages in both directions in
	// order of transmission), byte and bit
	Act  int `json:"act,omitempty"`
	Byte int `json:"byte,omitempty"`
	Bit  int `json:"bit,omitempty"`
	// rewrite: replace Len bytes at Byte of act Act by Data
	Data string `json:"data,omitempty"`
}

type c04Case struct {
	Cfg  hsConfig `json:"cfg"`
	Mitm mitmSpec `json:"mitm"`
}

type c04Result struct {
	violation string
	bothDone  bool
	edited    bool
	knownVer  bool // exactly the version-confusion finding
	v0Trunc   bool
	disagree  []string
	actLens   []int
}

// actIndex maps (direction, ordinal) to the act number: initiator messages are
// acts 1 and 3, the responder's is act 2.
func runC04(c c04Case) (res c04Result) {
	p := newHSPair(c.Cfg)
	edited := false
	install := func(h *halfPipe, acts []int) {
		h.mitm = func(idx int, msg []byte) [][]byte {
			if idx >= len(acts) {
				return [][]byte{msg}
			}
			act := acts[idx] // 1-based act number
			out := append([]byte(nil), msg...)
			switch c.Mitm.Kind {
			case "version":
				if v := c.Mitm.Ver[act-1]; v >= 0 && len(out) > 0 && int(out[0]) != v {
					out[0] = byte(v)
					edited = true
				}
			case "flip":
				if c.Mitm.Act == act && c.Mitm.Byte < len(out) {
					out[c.Mitm.Byte] ^= 1 << uint(c.Mitm.Bit)
					edited = true
				}
			case "rewrite":
				if c.Mitm.Act == act && c.Mitm.Byte < len(out) {
					d := unhex(c.Mitm.Data)
					n := copy(out[c.Mitm.Byte:], d)
					if n > 0 && !bytes.Equal(out, msg) {
						edited = true
					}
				}
			}
			return [][]byte{out}
		}
	}
	install(p.i2r, []int{1, 3})
	install(p.r2i, []int{2})
	p.run()
	res.edited = edited
	for _, m := range p.i2r.Written {
		res.actLens = append(res.actLens, len(m))
	}
	for _, m := range p.r2i.Written {
		res.actLens = append(res.actLens, len(m))
	}
	if isPanic(p.I.err) || isPanic(p.R.err) {
		res.violation = fmt.Sprintf("panic during handshake: initiator %v, responder %v", p.I.err, p.R.err)
		return
	}
	iOK, rOK := p.I.err == nil, p.R.err == nil
	res.bothDone = iOK && rOK
	if iOK {
		// An initiator that completed must hold exactly the responder's payload.
		if !bytes.Equal(p.I.cd.AuthData(), p.auth) {
			res.disagree = append(res.disagree, fmt.Sprintf("auth_payload(initiator has %d bytes, responder sent %d)", len(p.I.cd.AuthData()), len(p.auth)))
			if c.Cfg.Pattern == "XX" && len(p.auth) > mailbox.ActTwoPayloadSize-2 && p.I.m.VerifState().Version == 0 {
				res.v0Trunc = true
			}
		}
	}
	// A party that completed negotiated a version inside its own configured
	// range, whatever the peer or the relay offered.
	for _, d := range []struct {
		name     string
		ok       bool
		pt       *party
		min, max int
	}{{"initiator", iOK, p.I, c.Cfg.IMin, c.Cfg.IMax}, {"responder", rOK, p.R, c.Cfg.RMin, c.Cfg.RMax}} {
		if !d.ok {
			continue
		}
		if v := int(d.pt.m.VerifState().Version); v < d.min || v > d.max {
			res.disagree = append(res.disagree, fmt.Sprintf("%s_version_%d_outside_its_range_%d_%d", d.name, v, d.min, d.max))
		}
	}
	if res.bothDone {
		si, sr := p.I.m.VerifState(), p.R.m.VerifState()
		if si.Version != sr.Version {
			res.disagree = append(res.disagree, fmt.Sprintf("version(initiator %d, responder %d)", si.Version, sr.Version))
		}
		if si.SendKey != sr.RecvKey || si.RecvKey != sr.SendKey {
			res.disagree = append(res.disagree, "traffic_keys")
		} else {
			// behavioural check: first record of each side decrypts on the other
			for _, d := range []struct {
				name string
				w, r *mailbox.Machine
			}{{"i2r", p.I.m, p.R.m}, {"r2i", p.R.m, p.I.m}} {
				wire, err := writeRecord(d.w, []byte("probe-"+d.name))
				if err != nil {
					res.disagree = append(res.disagree, "record_write_"+d.name)
					continue
				}
				got, err := safeRead(d.r, bytes.NewReader(wire))
				if err != nil || string(got) != "probe-"+d.name {
					res.disagree = append(res.disagree, "record_"+d.name)
					continue
				}
				// "complementary traffic keys" is more than the first key:
				// the two ends ratchet to the next key after 500 records,
				// from state the handshake left them (clean runs, one in
				// four)
				if !edited && c.Cfg.Seed%4 == 0 {
					for k := 0; k < 501; k++ {
						w2, err := writeRecord(d.w, []byte{byte(k)})
						if err != nil {
							res.disagree = append(res.disagree, "record_write_"+d.name)
							break
						}
						g2, err := safeRead(d.r, bytes.NewReader(w2))
						if err != nil || len(g2) != 1 || g2[0] != byte(k) {
							res.disagree = append(res.disagree, fmt.Sprintf("record_%d_%s_after_the_handshake_does_not_decrypt(key_rotation)", k+1, d.name))
							break
						}
					}
				}
			}
		}
		if si.RemoteStatic == nil || !si.RemoteStatic.IsEqual(p.R.static.PubKey()) {
			res.disagree = append(res.disagree, "initiator_view_of_responder_key")
		}
		if sr.RemoteStatic == nil || !sr.RemoteStatic.IsEqual(p.I.static.PubKey()) {
			res.disagree = append(res.disagree, "responder_view_of_initiator_key")
		}
		sidI, _ := p.I.cd.SID()
		sidR, _ := p.R.cd.SID()
		if sidI != sidR {
			res.disagree = append(res.disagree, "sid")
		}
		if p.I.cd.HandshakePattern().Name != p.R.cd.HandshakePattern().Name {
			res.disagree = append(res.disagree, "next_pattern")
		}
		// What the two ConnData objects keep for the next connection: after
		// a version >= 2 handshake each holds the peer's true static key
		// (and hence the KK pattern and the key-derived SID); after an older
		// one an XX party holds none.
		for _, d := range []struct {
			name string
			pt   *party
			peer *party
			ver  byte
		}{{"initiator", p.I, p.R, si.Version}, {"responder", p.R, p.I, sr.Version}} {
			k := d.pt.cd.RemoteKey()
			switch {
			case d.ver >= 2 && (k == nil || !k.IsEqual(d.peer.static.PubKey())):
				res.disagree = append(res.disagree, d.name+"_conndata_did_not_store_the_peer_key")
			case d.ver < 2 && c.Cfg.Pattern == "XX" && k != nil:
				res.disagree = append(res.disagree, d.name+"_conndata_stored_a_key_below_version_2")
			}
		}
		if (len(p.I.gotRemote) > 0) != (len(p.R.gotRemote) > 0) {
			res.disagree = append(res.disagree, "on_remote_static_fired_on_one_side_only")
		}
		// known finding predicate: the only disagreements are the negotiated
		// version and what follows from it, both versions in {1,2}, and the
		// relay touched nothing but version bytes.
		// (XX only: with the two-act KK pattern the initiator's minimum is
		// clamped to 2, so no version substitution may ever get through.)
		if c.Mitm.Kind == "version" && c.Cfg.Pattern == "XX" && si.Version != sr.Version &&
			(si.Version == 1 || si.Version == 2) && (sr.Version == 1 || sr.Version == 2) {
			only := true
			for _, d := range res.disagree {
				if !(strings.HasPrefix(d, "version(") || d == "sid" || d == "next_pattern" || d == "on_remote_static_fired_on_one_side_only") {
					only = false
				}
			}
			res.knownVer = only
		}
	}
	if len(res.disagree) > 0 {
		sort.Strings(res.disagree)
		res.violation = fmt.Sprintf("handshake completed (initiator ok=%v, responder ok=%v) with different views: %s", iOK, rOK, strings.Join(res.disagree, ", "))
	}
	// What the parties hold stays theirs: a node serves many sessions in one
	// process, so after an unrelated pair of parties (other keys, other
	// passphrase, another payload of the same length) has run its handshake,
	// the first pair still holds what it agreed on.
	if res.violation == "" && res.bothDone && !edited {
		c2 := c.Cfg
		c2.Seed = c.Cfg.Seed ^ 0x9e3779b97f4a7c15
		p2 := newHSPair(c2)
		p2.run()
		if !bytes.Equal(p.I.cd.AuthData(), p.auth) {
			res.violation = fmt.Sprintf("the auth payload held by an initiator that had completed its handshake (%d bytes) changed when an unrelated pair of parties ran a handshake in the same process", len(p.auth))
		}
		if p2.I.err == nil && p2.R.err == nil && !bytes.Equal(p2.I.cd.AuthData(), p2.auth) {
			res.violation = "the second of two handshakes in one process left its initiator with a different auth payload than its responder sent"
		}
	}
	return
}

func validCfg(c hsConfig) bool {
	return c.IMin <= c.IMax && c.RMin <= c.RMax
}

func c04Report(rec *stats.Recorder, c c04Case, r c04Result) (fatal string) {
	if r.violation == "" {
		return ""
	}
	if r.knownVer && rec.IsKnown("noise-version-byte-unauthenticated") {
		rec.KnownHit("noise-version-byte-unauthenticated")
		return ""
	}
	return r.violation
}

// TestC04Matrix: all 81 version ranges x both patterns, clean and with every
// combination of version-byte substitutions across the acts.
func TestC04Matrix(t *testing.T) {
	const unit = "TestC04Matrix"
	rec := stats.New(t, "C04", unit)
	var rc c04Case
	if stats.ReplayCase(unit, &rc) {
		if r := runC04(rc); r.violation != "" {
			rec.Violation(r.violation, "c04", rc)
			t.Fatal(r.violation)
		}
		return
	}
	if stats.ReplayMode() {
		t.Skip()
	}
	nviol := 0
	report := func(c c04Case, r c04Result) {
		if v := c04Report(rec, c, r); v != "" && nviol < 8 {
			nviol++
			rec.Violation(v, "c04", c)
		}
	}
	seed := stats.Seed()
	for _, pat := range []string{"XX", "KK"} {
		for imin := 0; imin <= 2; imin++ {
			for imax := 0; imax <= 2; imax++ {
				for rmin := 0; rmin <= 2; rmin++ {
					for rmax := 0; rmax <= 2; rmax++ {
						cfg := hsConfig{Pattern: pat, IMin: imin, IMax: imax, RMin: rmin, RMax: rmax,
							Seed: seed, AuthLen: 40, PassMode: "same", IKnowsR: true, RKnowsI: true}
						// clean
						c := c04Case{Cfg: cfg, Mitm: mitmSpec{Kind: "none"}}
						rec.Current("c04", c)
						r := runC04(c)
						neg := r.bothDone && (rmax != imax)
						rec.Case(neg, fmt.Sprintf("%+v", c), "clean_"+pat, map[bool]string{true: "completed", false: "aborted"}[r.bothDone])
						report(c, r)
						if !validCfg(cfg) {
							continue
						}
						// all version-byte substitutions across acts
						nacts := 3
						if pat == "KK" {
							nacts = 2
						}
						var ver [3]int
						var rec3 func(i int)
						rec3 = func(i int) {
							if i == nacts {
								v := ver
								for k := nacts; k < 3; k++ {
									v[k] = -1
								}
								c := c04Case{Cfg: cfg, Mitm: mitmSpec{Kind: "version", Ver: v}}
								r := runC04(c)
								lab := "version_subst_aborted"
								if r.bothDone {
									lab = "version_subst_completed"
								}
								rec.Case(r.edited, fmt.Sprintf("%+v", c), lab)
								report(c, r)
								return
							}
							for x := 0; x <= 3; x++ {
								ver[i] = x
								rec3(i + 1)
							}
						}
						rec3(0)
					}
				}
			}
		}
	}
	rec.Sample(c04Case{Cfg: hsConfig{Pattern: "XX", IMin: 0, IMax: 2, RMin: 0, RMax: 2, Seed: seed, AuthLen: 40}, Mitm: mitmSpec{Kind: "version", Ver: [3]int{-1, 1, 2}}})
	rec.SetExhaustive(true)
	rec.Done()
	if nviol > 0 {
		t.Fatalf("%d violations", nviol)
	}
}

// TestC04BitFlips: every single-bit flip of every handshake byte for one
// small-payload configuration per pattern and version.
func TestC04BitFlips(t *testing.T) {
	const unit = "TestC04BitFlips"
	rec := stats.New(t, "C04", unit)
	var rc c04Case
	if stats.ReplayCase(unit, &rc) {
		if r := runC04(rc); r.violation != "" {
			rec.Violation(r.violation, "c04", rc)
			t.Fatal(r.violation)
		}
		return
	}
	if stats.ReplayMode() {
		t.Skip()
	}
	nviol := 0
	seed := stats.Seed()
	cfgs := []hsConfig{
		{Pattern: "XX", IMin: 0, IMax: 2, RMin: 0, RMax: 0, Seed: seed, AuthLen: 8, PassMode: "same"},
		{Pattern: "XX", IMin: 1, IMax: 1, RMin: 1, RMax: 1, Seed: seed, AuthLen: 8, PassMode: "same"},
		{Pattern: "XX", IMin: 2, IMax: 2, RMin: 2, RMax: 2, Seed: seed, AuthLen: 8, PassMode: "same"},
		{Pattern: "XX", IMin: 0, IMax: 2, RMin: 0, RMax: 2, Seed: seed, AuthLen: 8, PassMode: "same"},
		{Pattern: "KK", IMin: 2, IMax: 2, RMin: 2, RMax: 2, Seed: seed, AuthLen: 8, IKnowsR: true, RKnowsI: true},
	}
	shard, shards := stats.Shard()
	idx := 0
	for _, cfg := range cfgs {
		clean := runC04(c04Case{Cfg: cfg, Mitm: mitmSpec{Kind: "none"}})
		if !clean.bothDone {
			rec.Violation("clean handshake failed for "+fmt.Sprintf("%+v", cfg), "c04", c04Case{Cfg: cfg})
			nviol++
			continue
		}
		// act lengths: initiator messages first in actLens (acts 1,3), then act 2
		lens := map[int]int{1: clean.actLens[0]}
		if cfg.Pattern == "XX" {
			lens[3] = clean.actLens[1]
			lens[2] = clean.actLens[2]
		} else {
			lens[2] = clean.actLens[1]
		}
		for act, l := range lens {
			for by := 0; by < l; by++ {
				for bit := 0; bit < 8; bit++ {
					idx++
					if idx%shards != shard {
						continue
					}
					c := c04Case{Cfg: cfg, Mitm: mitmSpec{Kind: "flip", Act: act, Byte: by, Bit: bit}}
					r := runC04(c)
					lab := "flip_aborted"
					if r.bothDone {
						lab = "flip_completed"
					}
					rec.Case(true, fmt.Sprintf("%+v", c), lab)
					if v := c04Report(rec, c, r); v != "" && nviol < 8 {
						nviol++
						rec.Violation(v, "c04", c)
					}
				}
			}
		}
	}
	rec.Sample(c04Case{Cfg: cfgs[2], Mitm: mitmSpec{Kind: "flip", Act: 2, Byte: 40, Bit: 3}})
	rec.SetExhaustive(true)
	rec.Done()
	if nviol > 0 {
		t.Fatalf("%d violations", nviol)
	}
}

// TestC04Rapid: payload sizes around the format boundaries and random
// multi-byte rewrites.
func TestC04Rapid(t *testing.T) {
	const unit = "TestC04Rapid"
	rec := stats.New(t, "C04", unit)
	var rc c04Case
	if stats.ReplayCase(unit, &rc) {
		if r := runC04(rc); r.violation != "" {
			rec.Violation(r.violation, "c04", rc)
			t.Fatal(r.violation)
		}
		return
	}
	if stats.ReplayMode() {
		t.Skip()
	}
	rapid.Check(t, func(rt *rapid.T) {
		var c c04Case
		c.Cfg = hsConfig{Seed: rapid.Uint64().Draw(rt, "seed"), PassMode: "same", IKnowsR: true, RKnowsI: true}
		c.Cfg.Pattern = rapid.SampledFrom([]string{"XX", "XX", "KK"}).Draw(rt, "pattern")
		c.Cfg.IMin = rapid.IntRange(0, 2).Draw(rt, "imin")
		c.Cfg.IMax = rapid.IntRange(c.Cfg.IMin, 2).Draw(rt, "imax")
		c.Cfg.RMin = rapid.IntRange(0, 2).Draw(rt, "rmin")
		c.Cfg.RMax = rapid.IntRange(c.Cfg.RMin, 2).Draw(rt, "rmax")
		c.Cfg.AuthLen = rapid.OneOf(
			rapid.SampledFrom([]int{0, 1, 497, 498, 499, 500, 501, 65535, 65536, 65537}),
			rapid.IntRange(0, 2000),
			rapid.IntRange(0, 3<<20),
		).Draw(rt, "auth_len")
		c.Cfg.NilAuth = rapid.IntRange(0, 9).Draw(rt, "nil_auth") == 0
		c.Cfg.StaleAuth = rapid.IntRange(0, 2).Draw(rt, "stale_auth") == 0
		switch rapid.IntRange(0, 2).Draw(rt, "mitm") {
		case 0:
			c.Mitm.Kind = "none"
		case 1:
			c.Mitm.Kind = "rewrite"
			c.Mitm.Act = rapid.IntRange(1, 3).Draw(rt, "act")
			c.Mitm.Byte = rapid.IntRange(0, 600).Draw(rt, "byte")
			c.Mitm.Data = fmt.Sprintf("%x", rapid.SliceOfN(rapid.Byte(), 1, 8).Draw(rt, "data"))
		default:
			c.Mitm.Kind = "version"
			for i := range c.Mitm.Ver {
				c.Mitm.Ver[i] = rapid.IntRange(-1, 3).Draw(rt, "ver")
			}
		}
		rec.Current("c04", c)
		r := runC04(c)
		nt := r.edited || (r.bothDone && c.Cfg.RMax != c.Cfg.IMax)
		var labels []string
		if r.bothDone {
			labels = append(labels, "completed")
		}
		if c.Cfg.AuthLen > 498 {
			labels = append(labels, "payload_gt_498")
		}
		if c.Cfg.AuthLen > 65535 {
			labels = append(labels, "payload_gt_64k")
		}
		if c.Cfg.StaleAuth && r.bothDone {
			labels = append(labels, "initiator_held_earlier_auth_data")
			if c.Cfg.AuthLen == 0 || c.Cfg.NilAuth {
				labels = append(labels, "earlier_auth_data_replaced_by_empty")
			}
		}
		rec.Case(nt, fmt.Sprintf("%+v", c), labels...)
		if nt && rec.WantSample() {
			rec.Sample(c)
		}
		if v := c04Report(rec, c, r); v != "" {
			rec.Pending(v, "c04", c)
			rt.Fatalf("%s", v)
		}
	})
	rec.Done()
}
