package mboxprop

import (
	"bytes"
	"crypto/sha256"
	"fmt"
	"testing"

	"github.com/lightninglabs/lightning-node-connect/mailbox"
	"pgregory.net/rapid"

	"verif/harness/stats"
)

// recSpec is one record: direction, size and content pattern.
type recSpec struct {
	Dir  int    `json:"d"`   // 0: initiator -> responder
	Len  int    `json:"len"` // plaintext length
	Kind string `json:"k"`   // same | lenhdr | rand
}

type c08Case struct {
	Cfg  hsConfig `json:"cfg"`
	Runs []recRun `json:"runs"` // compressed representation: runs of records
}

// recRun is a run of Count records of one direction/kind/size.
type recRun struct {
	recSpec
	Count int `json:"count"`
}

func plaintext(seed uint64, r recSpec, idx int) []byte {
	switch r.Kind {
	case "same":
		return entropy(seed, "same", r.Len)
	case "lenhdr":
		// a 2-byte body that equals its own length header (big endian 2)
		return []byte{0, 2}
	default:
		return entropy(seed, fmt.Sprintf("rand/%d/%d", r.Dir, idx), r.Len)
	}
}

func runC08(c *c08Case) (violation string, total int, rotations int, equalPlain bool) {
	p, err := established(c.Cfg)
	if err != nil {
		return err.Error(), 0, 0, false
	}
	type kn struct {
		key   [32]byte
		nonce uint64
	}
	seenKN := [2]map[kn]bool{{}, {}}
	headers := map[[18]byte]bool{}
	bodies := map[[32]byte]map[[32]byte]bool{} // plaintext hash -> set of ciphertext hashes
	count := [2]int{}
	for _, run := range c.Runs {
		for k := 0; k < run.Count; k++ {
			r := run.recSpec
			w, rd := p.I.m, p.R.m
			if r.Dir == 1 {
				w, rd = p.R.m, p.I.m
			}
			idx := count[r.Dir]
			count[r.Dir]++
			total++
			pt := plaintext(c.Cfg.Seed, r, idx)
			st := w.VerifState()
			for off := uint64(0); off < 2; off++ {
				x := kn{st.SendKey, st.SendNonce + off}
				if seenKN[r.Dir][x] {
					return fmt.Sprintf("dir %d record %d: (key, nonce=%d) pair reused", r.Dir, idx, x.nonce), total, rotations, equalPlain
				}
				seenKN[r.Dir][x] = true
				// the other direction must never use the same key
				for y := range seenKN[1-r.Dir] {
					if y.key == x.key {
						return fmt.Sprintf("both directions use the same traffic key (record %d of dir %d)", idx, r.Dir), total, rotations, equalPlain
					}
					break
				}
			}
			wire, err := writeRecord(w, pt)
			if err != nil {
				return fmt.Sprintf("dir %d record %d (len %d): write failed: %v", r.Dir, idx, len(pt), err), total, rotations, equalPlain
			}
			if len(wire) != 18+len(pt)+16 {
				return fmt.Sprintf("dir %d record %d: wire length %d for %d plaintext bytes", r.Dir, idx, len(wire), len(pt)), total, rotations, equalPlain
			}
			if w.VerifState().SendKey != st.SendKey {
				rotations++
			}
			var h [18]byte
			copy(h[:], wire[:18])
			if headers[h] {
				return fmt.Sprintf("dir %d record %d: ciphertext header repeats an earlier one (nonce/key reuse)", r.Dir, idx), total, rotations, equalPlain
			}
			headers[h] = true
			ph := sha256.Sum256(append([]byte{byte(len(pt) >> 8), byte(len(pt))}, pt...))
			ch := sha256.Sum256(wire[18:])
			if bodies[ph] == nil {
				bodies[ph] = map[[32]byte]bool{}
			} else {
				equalPlain = true
			}
			if bodies[ph][ch] {
				return fmt.Sprintf("dir %d record %d: equal plaintexts produced equal ciphertexts", r.Dir, idx), total, rotations, equalPlain
			}
			bodies[ph][ch] = true
			// a 2-byte body has the size of a header: it must differ from
			// every header too
			if len(pt) == 2 {
				var b [18]byte
				copy(b[:], wire[18:])
				if headers[b] {
					return fmt.Sprintf("dir %d record %d: body ciphertext equals a header ciphertext", r.Dir, idx), total, rotations, equalPlain
				}
			}
			if len(pt) >= 16 && bytes.Contains(wire, pt[:16]) {
				return fmt.Sprintf("dir %d record %d: plaintext visible on the wire", r.Dir, idx), total, rotations, equalPlain
			}
			if len(p.auth) >= 16 && bytes.Contains(wire, p.auth[:16]) {
				return fmt.Sprintf("dir %d record %d: auth payload visible on the wire", r.Dir, idx), total, rotations, equalPlain
			}
			got, err := safeRead(rd, bytes.NewReader(wire))
			if err != nil {
				return fmt.Sprintf("dir %d record %d (len %d): the peer failed to decrypt: %v", r.Dir, idx, len(pt), err), total, rotations, equalPlain
			}
			if !bytes.Equal(got, pt) {
				return fmt.Sprintf("dir %d record %d: decrypted to different bytes", r.Dir, idx), total, rotations, equalPlain
			}
		}
	}
	// the auth payload must not have been on the handshake wire either
	if len(p.auth) >= 16 {
		for _, m := range append(append([][]byte{}, p.i2r.Written...), p.r2i.Written...) {
			if bytes.Contains(m, p.auth[:16]) {
				return "auth payload visible in a handshake message", total, rotations, equalPlain
			}
		}
	}
	return "", total, rotations, equalPlain
}

func genC08(t *rapid.T) *c08Case {
	c := &c08Case{Cfg: genCleanCfg(t)}
	c.Cfg.AuthLen = rapid.SampledFrom([]int{16, 64, 400}).Draw(t, "auth")
	nruns := rapid.IntRange(1, 12).Draw(t, "nruns")
	budget := stats.Scale(4500, 20000)
	for i := 0; i < nruns && budget > 0; i++ {
		r := recRun{}
		r.Dir = rapid.IntRange(0, 1).Draw(t, "dir")
		r.Kind = rapid.SampledFrom([]string{"same", "same", "lenhdr", "rand"}).Draw(t, "kind")
		r.Len = rapid.OneOf(rapid.SampledFrom([]int{0, 1, 2, 16, 17}), rapid.IntRange(0, 300), rapid.SampledFrom([]int{65535, 32768})).Draw(t, "len")
		r.Count = rapid.OneOf(rapid.IntRange(1, 10), rapid.SampledFrom([]int{499, 500, 501, 999, 1000, 1001, 1500}), rapid.IntRange(1, 2500)).Draw(t, "count")
		if r.Len > 4096 && r.Count > 40 {
			r.Count = 40
		}
		if r.Count > budget {
			r.Count = budget
		}
		budget -= r.Count
		c.Runs = append(c.Runs, r)
	}
	return c
}

func TestC08CipherStream(t *testing.T) {
	const unit = "TestC08CipherStream"
	rec := stats.New(t, "C08", unit)
	var rc c08Case
	if stats.ReplayCase(unit, &rc) {
		if v, _, _, _ := runC08(&rc); v != "" {
			rec.Violation(v, "c08", rc)
			t.Fatal(v)
		}
		return
	}
	if stats.ReplayMode() {
		t.Skip()
	}
	var records int64
	rapid.Check(t, func(rt *rapid.T) {
		c := genC08(rt)
		rec.Current("c08", c)
		v, total, rot, eq := runC08(c)
		records += int64(total)
		var labels []string
		if rot > 0 {
			labels = append(labels, "rotated")
		}
		if rot > 2 {
			labels = append(labels, "rotated_3plus")
		}
		if eq {
			labels = append(labels, "equal_plaintexts")
		}
		nt := rot > 0 && eq
		rec.Case(nt, fmt.Sprintf("%+v", *c), labels...)
		if nt && rec.WantSample() {
			rec.Sample(c)
		}
		if v != "" {
			rec.Pending(v, "c08", c)
			rt.Fatalf("%s", v)
		}
	})
	rec.Label("records_total", records)
	rec.Done()
}

var _ = mailbox.XX
