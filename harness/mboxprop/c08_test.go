package mboxprop

import (
	"bytes"
	"crypto/sha256"
	"fmt"
	"testing"

	"github.com/lightninglabs/lightning-node-connect/mailbox"
	"pgregory.net/rapid"

	"verif/harness/stats"
)

// recSpec is one record: direction, size and content pattern.
type recSpec struct {
	Dir  int    `json:"d"`   // 0: initiator -> responder
	Len  int    `json:"len"` // plaintext length
	Kind string `json:"k"`   // same | lenhdr | rand
}

type c08Case struct {
	Cfg  hsConfig `json:"cfg"`
	Runs []recRun `json:"runs"` // compressed representation: runs of records
}

// recRun is a run of Count records of one direction/kind/size.
type recRun struct {
	recSpec
	Count int `json:"count"`
	// Op: "" = every record is read by the peer as soon as it is written
	// (lock step); "w" = written only (the records stay in flight); "r" = the
	// peer reads up to Count records of direction Dir that are in flight.
	Op string `json:"op,omitempty"`
	// Cut > 0: the transport accepts only Cut bytes (modulo the wire length)
	// of every record of this run on the first Flush and reports a timeout;
	// the record is completed by further Flush calls (C16 decides the exact
	// accounting; here the stream must simply go on decrypting, also when
	// the interrupted record is the one at a rotation boundary).
	Cut int `json:"cut,omitempty"`
}

func plaintext(seed uint64, r recSpec, idx int) []byte {
	switch r.Kind {
	case "same":
		return entropy(seed, "same", r.Len)
	case "lenhdr":
		// a 2-byte body that equals its own length header (big endian 2)
		return []byte{0, 2}
	default:
		return entropy(seed, fmt.Sprintf("rand/%d/%d", r.Dir, idx), r.Len)
	}
}

// crossed is set by runC08 when both directions had records in flight at once.
var crossed bool

func runC08(c *c08Case) (violation string, total int, rotations int, equalPlain bool) {
	crossed = false
	p, err := established(c.Cfg)
	if err != nil {
		return err.Error(), 0, 0, false
	}
	type kn struct {
		key   [32]byte
		nonce uint64
	}
	seenKN := [2]map[kn]bool{{}, {}}
	headers := map[[18]byte]bool{}
	bodies := map[[32]byte]map[[32]byte]bool{} // plaintext hash -> set of ciphertext hashes
	count := [2]int{}
	type flying struct {
		wire, pt []byte
		idx      int
	}
	var inFlight [2][]flying
	deliver := func(dir int, f flying) string {
		rd := p.R.m
		if dir == 1 {
			rd = p.I.m
		}
		got, err := safeRead(rd, bytes.NewReader(f.wire))
		if err != nil {
			return fmt.Sprintf("dir %d record %d (len %d): the peer failed to decrypt: %v (it had %d records of its own in flight)", dir, f.idx, len(f.pt), err, len(inFlight[1-dir]))
		}
		if !bytes.Equal(got, f.pt) {
			return fmt.Sprintf("dir %d record %d: decrypted to different bytes", dir, f.idx)
		}
		return ""
	}
	runs := append([]recRun{}, c.Runs...)
	// whatever is still in flight at the end is read, direction 0 first
	runs = append(runs, recRun{recSpec: recSpec{Dir: 0}, Op: "r", Count: 1 << 30}, recRun{recSpec: recSpec{Dir: 1}, Op: "r", Count: 1 << 30})
	for _, run := range runs {
		if run.Op == "r" {
			for k := 0; k < run.Count && len(inFlight[run.Dir]) > 0; k++ {
				f := inFlight[run.Dir][0]
				inFlight[run.Dir] = inFlight[run.Dir][1:]
				if v := deliver(run.Dir, f); v != "" {
					return v, total, rotations, equalPlain
				}
			}
			continue
		}
		for k := 0; k < run.Count; k++ {
			r := run.recSpec
			w := p.I.m
			if r.Dir == 1 {
				w = p.R.m
			}
			idx := count[r.Dir]
			count[r.Dir]++
			total++
			pt := plaintext(c.Cfg.Seed, r, idx)
			st := w.VerifState()
			for off := uint64(0); off < 2; off++ {
				x := kn{st.SendKey, st.SendNonce + off}
				if seenKN[r.Dir][x] {
					return fmt.Sprintf("dir %d record %d: (key, nonce=%d) pair reused", r.Dir, idx, x.nonce), total, rotations, equalPlain
				}
				seenKN[r.Dir][x] = true
				// the other direction must never use the same key
				for y := range seenKN[1-r.Dir] {
					if y.key == x.key {
						return fmt.Sprintf("both directions use the same traffic key (record %d of dir %d)", idx, r.Dir), total, rotations, equalPlain
					}
					break
				}
			}
			var wire []byte
			var err error
			if run.Cut > 0 {
				if err = w.WriteMessage(pt); err == nil {
					pw := &partialWriter{cuts: []int{1 + (run.Cut-1)%(18+len(pt)+16-1)}}
					for tries := 0; tries < 4; tries++ {
						if _, err = w.Flush(pw); err == nil {
							break
						}
					}
					wire = pw.accepted
				}
			} else {
				wire, err = writeRecord(w, pt)
			}
			if err != nil {
				return fmt.Sprintf("dir %d record %d (len %d): write failed: %v", r.Dir, idx, len(pt), err), total, rotations, equalPlain
			}
			if len(wire) != 18+len(pt)+16 {
				return fmt.Sprintf("dir %d record %d: wire length %d for %d plaintext bytes", r.Dir, idx, len(wire), len(pt)), total, rotations, equalPlain
			}
			if w.VerifState().SendKey != st.SendKey {
				rotations++
			}
			var h [18]byte
			copy(h[:], wire[:18])
			if headers[h] {
				return fmt.Sprintf("dir %d record %d: ciphertext header repeats an earlier one (nonce/key reuse)", r.Dir, idx), total, rotations, equalPlain
			}
			headers[h] = true
			ph := sha256.Sum256(append([]byte{byte(len(pt) >> 8), byte(len(pt))}, pt...))
			ch := sha256.Sum256(wire[18:])
			if bodies[ph] == nil {
				bodies[ph] = map[[32]byte]bool{}
			} else {
				equalPlain = true
			}
			if bodies[ph][ch] {
				return fmt.Sprintf("dir %d record %d: equal plaintexts produced equal ciphertexts", r.Dir, idx), total, rotations, equalPlain
			}
			bodies[ph][ch] = true
			// a 2-byte body has the size of a header: it must differ from
			// every header too
			if len(pt) == 2 {
				var b [18]byte
				copy(b[:], wire[18:])
				if headers[b] {
					return fmt.Sprintf("dir %d record %d: body ciphertext equals a header ciphertext", r.Dir, idx), total, rotations, equalPlain
				}
			}
			if len(pt) >= 16 && bytes.Contains(wire, pt[:16]) {
				return fmt.Sprintf("dir %d record %d: plaintext visible on the wire", r.Dir, idx), total, rotations, equalPlain
			}
			if len(p.auth) >= 16 && bytes.Contains(wire, p.auth[:16]) {
				return fmt.Sprintf("dir %d record %d: auth payload visible on the wire", r.Dir, idx), total, rotations, equalPlain
			}
			f := flying{wire: wire, pt: pt, idx: idx}
			if run.Op == "w" {
				inFlight[r.Dir] = append(inFlight[r.Dir], f)
				if len(inFlight[0]) > 0 && len(inFlight[1]) > 0 {
					crossed = true
				}
				continue
			}
			// lock step: everything older of this direction is read first
			for _, o := range inFlight[r.Dir] {
				if v := deliver(r.Dir, o); v != "" {
					return v, total, rotations, equalPlain
				}
			}
			inFlight[r.Dir] = nil
			if v := deliver(r.Dir, f); v != "" {
				return v, total, rotations, equalPlain
			}
		}
	}
	// the auth payload must not have been on the handshake wire either
	if len(p.auth) >= 16 {
		for _, m := range append(append([][]byte{}, p.i2r.Written...), p.r2i.Written...) {
			if bytes.Contains(m, p.auth[:16]) {
				return "auth payload visible in a handshake message", total, rotations, equalPlain
			}
		}
	}
	return "", total, rotations, equalPlain
}

func genC08(t *rapid.T) *c08Case {
	c := &c08Case{Cfg: genCleanCfg(t)}
	c.Cfg.AuthLen = rapid.SampledFrom([]int{16, 64, 400}).Draw(t, "auth")
	nruns := rapid.IntRange(1, 12).Draw(t, "nruns")
	budget := stats.Scale(4500, 20000)
	// decoupled: writes and reads are separate steps, so that each side can
	// pass a rotation boundary while records of the peer are still unread
	decoupled := rapid.Bool().Draw(t, "decoupled")
	for i := 0; i < nruns && budget > 0; i++ {
		r := recRun{}
		r.Dir = rapid.IntRange(0, 1).Draw(t, "dir")
		r.Kind = rapid.SampledFrom([]string{"same", "same", "lenhdr", "rand"}).Draw(t, "kind")
		r.Len = rapid.OneOf(rapid.SampledFrom([]int{0, 1, 2, 16, 17}), rapid.IntRange(0, 300), rapid.SampledFrom([]int{65535, 32768})).Draw(t, "len")
		r.Count = rapid.OneOf(rapid.IntRange(1, 10), rapid.SampledFrom([]int{499, 500, 501, 999, 1000, 1001, 1500}), rapid.IntRange(1, 2500)).Draw(t, "count")
		if r.Len > 4096 && r.Count > 40 {
			r.Count = 40
		}
		if r.Count > budget {
			r.Count = budget
		}
		budget -= r.Count
		if rapid.IntRange(0, 5).Draw(t, "partial") == 0 {
			r.Cut = rapid.OneOf(rapid.IntRange(1, 18), rapid.IntRange(1, 400)).Draw(t, "cut")
		}
		if decoupled {
			switch rapid.IntRange(0, 3).Draw(t, "op") {
			case 0:
			case 1, 2:
				r.Op = "w"
			default:
				// a read run consumes no budget
				budget += r.Count
				r.Op = "r"
			}
		}
		c.Runs = append(c.Runs, r)
	}
	return c
}

func TestC08CipherStream(t *testing.T) {
	const unit = "TestC08CipherStream"
	rec := stats.New(t, "C08", unit)
	var rc c08Case
	if stats.ReplayCase(unit, &rc) {
		if v, _, _, _ := runC08(&rc); v != "" {
			rec.Violation(v, "c08", rc)
			t.Fatal(v)
		}
		return
	}
	if stats.ReplayMode() {
		t.Skip()
	}
	var records int64
	rapid.Check(t, func(rt *rapid.T) {
		c := genC08(rt)
		rec.Current("c08", c)
		v, total, rot, eq := runC08(c)
		records += int64(total)
		var labels []string
		if rot > 0 {
			labels = append(labels, "rotated")
		}
		if rot > 2 {
			labels = append(labels, "rotated_3plus")
		}
		if eq {
			labels = append(labels, "equal_plaintexts")
		}
		if crossed {
			labels = append(labels, "both_directions_in_flight")
			if rot > 1 {
				labels = append(labels, "both_directions_in_flight_rotated")
			}
		}
		nt := rot > 0 && eq
		rec.Case(nt, fmt.Sprintf("%+v", *c), labels...)
		if nt && rec.WantSample() {
			rec.Sample(c)
		}
		if v != "" {
			rec.Pending(v, "c08", c)
			rt.Fatalf("%s", v)
		}
	})
	rec.Label("records_total", records)
	rec.Done()
}

var _ = mailbox.XX
