package mboxprop

import (
	"bytes"
	"errors"
	"fmt"
	"testing"

	"pgregory.net/rapid"

	"verif/harness/stats"
)

// TestC16Duplex: one Machine used in both directions at once, as every net.Conn
// on top of it is (a reader goroutine and a writer goroutine): the outbound
// record is accepted by the transport in pieces separated by timeouts, the
// inbound records arrive in short reads, and the two activities are
// interleaved at fragment granularity by a drawn schedule. The interleaving is
// made deterministic by running the writer's steps from inside the inbound
// reader's Read callback (a point at which a concurrent writer goroutine could
// be scheduled; the Machine holds no lock there).
//
// Oracle: whatever the interleaving and the fragmentation, (1) the bytes the
// transport accepted are exactly the wire records a reference session (same
// keys, same ephemerals) writes in one go, each once; (2) the Flush counts add
// up to the plaintext written; (3) the peer decrypts them to the plaintexts;
// (4) every inbound record decrypts to what the peer wrote.
type duplexCase struct {
	Cfg    hsConfig `json:"cfg"`
	OutLen []int    `json:"out_len"` // plaintext lengths of the outbound records
	InLen  []int    `json:"in_len"`  // plaintext lengths of the inbound records
	Cuts   []int    `json:"cuts"`    // ascending absolute offsets in the outbound byte stream at which a write times out
	Frag   []int    `json:"frag"`    // inbound read sizes (cycled)
	// Steps: number of writer steps (WriteMessage+Flush, or Flush of the
	// pending rest) run before each inbound fragment is handed over (cycled).
	Steps []int `json:"steps"`
	// Responder: the machine under test is the responder's (else the
	// initiator's).
	Responder bool `json:"responder,omitempty"`
}

func runC16Duplex(c *duplexCase) (violation string, interleaved int) {
	ref, err := established(c.Cfg)
	if err != nil {
		return err.Error(), 0
	}
	p, err := established(c.Cfg)
	if err != nil {
		return err.Error(), 0
	}
	a, b := p.I.m, p.R.m // a: under test
	ra := ref.I.m
	if c.Responder {
		a, b = p.R.m, p.I.m
		ra = ref.R.m
	}
	var outPT, inPT [][]byte
	var want, inWire []byte
	for i, l := range c.OutLen {
		pt := entropy(c.Cfg.Seed, fmt.Sprintf("duplex-out-%d", i), l)
		outPT = append(outPT, pt)
		wire, err := writeRecord(ra, pt)
		if err != nil {
			return "reference write failed: " + err.Error(), 0
		}
		want = append(want, wire...)
	}
	for i, l := range c.InLen {
		pt := entropy(c.Cfg.Seed, fmt.Sprintf("duplex-in-%d", i), l)
		inPT = append(inPT, pt)
		wire, err := writeRecord(b, pt)
		if err != nil {
			return "peer write failed: " + err.Error(), 0
		}
		inWire = append(inWire, wire...)
	}
	w := &partialWriter{cuts: append([]int(nil), c.Cuts...)}
	var (
		next    int // next outbound record
		pending bool
		sum     int
		verr    string
	)
	// one writer step
	step := func() {
		if verr != "" {
			return
		}
		if !pending {
			if next >= len(outPT) {
				return
			}
			if err := a.WriteMessage(outPT[next]); err != nil {
				verr = fmt.Sprintf("WriteMessage of outbound record %d failed with nothing pending: %v", next, err)
				return
			}
			next++
			pending = true
		}
		n, err := a.Flush(w)
		if n < 0 {
			verr = fmt.Sprintf("Flush returned a negative count %d", n)
			return
		}
		sum += n
		if err == nil {
			pending = false
			return
		}
		var te interface{ Timeout() bool }
		if !errors.As(err, &te) {
			verr = "Flush returned an unexpected error: " + err.Error()
		}
	}
	// inbound reader: fragments, with writer steps before each fragment
	fr := &hookReader{b: inWire, frag: c.Frag}
	k := 0
	fr.before = func() {
		if len(c.Steps) == 0 {
			return
		}
		n := c.Steps[k%len(c.Steps)]
		k++
		for i := 0; i < n; i++ {
			if pending || next < len(outPT) {
				interleaved++
			}
			step()
		}
	}
	for i, pt := range inPT {
		got, err := safeRead(a, fr)
		if err != nil {
			return fmt.Sprintf("inbound record %d (of %d, %d bytes) failed although the peer wrote it and nothing altered it: %v (read sizes %v, writer steps between fragments %v)",
				i, len(inPT), len(pt), err, c.Frag, c.Steps), interleaved
		}
		if !bytes.Equal(got, pt) {
			return fmt.Sprintf("inbound record %d decrypted to different bytes", i), interleaved
		}
	}
	// finish the outbound side
	for guard := 0; (pending || next < len(outPT)) && verr == ""; guard++ {
		if guard > 2*len(c.Cuts)+2*len(outPT)+5 {
			return "outbound records not flushed after the expected number of Flush calls", interleaved
		}
		step()
	}
	if verr != "" {
		return verr, interleaved
	}
	if !bytes.Equal(w.accepted, want) {
		d := firstDiff(w.accepted, want)
		return fmt.Sprintf("bytes accepted by the transport (%d) differ from the wire records of the reference session (%d bytes) from offset %d on; write timeouts at %v, inbound records read in between",
			len(w.accepted), len(want), d, c.Cuts), interleaved
	}
	total := 0
	for _, pt := range outPT {
		total += len(pt)
	}
	if sum != total {
		return fmt.Sprintf("Flush calls reported %d plaintext bytes in total, %d were written", sum, total), interleaved
	}
	rd := bytes.NewReader(w.accepted)
	for i, pt := range outPT {
		got, err := safeRead(b, rd)
		if err != nil {
			return fmt.Sprintf("peer failed to decrypt outbound record %d: %v", i, err), interleaved
		}
		if !bytes.Equal(got, pt) {
			return fmt.Sprintf("peer decrypted outbound record %d to different bytes", i), interleaved
		}
	}
	return "", interleaved
}

// hookReader hands out fragments and calls before() ahead of each.
type hookReader struct {
	b      []byte
	frag   []int
	i      int
	before func()
}

func (f *hookReader) Read(p []byte) (int, error) {
	if f.before != nil {
		f.before()
	}
	if len(f.b) == 0 {
		return 0, errors.New("EOF")
	}
	n := 1
	if len(f.frag) > 0 {
		n = f.frag[f.i%len(f.frag)]
		f.i++
	}
	if n > len(p) {
		n = len(p)
	}
	if n > len(f.b) {
		n = len(f.b)
	}
	if n <= 0 {
		return 0, nil
	}
	copy(p, f.b[:n])
	f.b = f.b[n:]
	return n, nil
}

func genC16Duplex(rt *rapid.T) *duplexCase {
	c := &duplexCase{Cfg: genCleanCfg(rt)}
	lenGen := rapid.OneOf(rapid.IntRange(0, 40), rapid.IntRange(0, 40), rapid.IntRange(0, 40), rapid.IntRange(0, 3000), rapid.SampledFrom([]int{32768, 65535}))
	c.OutLen = rapid.SliceOfN(lenGen, 1, 5).Draw(rt, "out_len")
	c.InLen = rapid.SliceOfN(lenGen, 1, 5).Draw(rt, "in_len")
	total := 0
	var starts []int
	for _, l := range c.OutLen {
		starts = append(starts, total)
		total += 18 + l + 16
	}
	n := rapid.IntRange(0, 10).Draw(rt, "ncuts")
	seen := map[int]bool{}
	for i := 0; i < n; i++ {
		// inside a header, inside a body MAC, anywhere
		s := rapid.SampledFrom(starts).Draw(rt, "rec")
		x := rapid.OneOf(
			rapid.IntRange(s+1, s+17),
			rapid.IntRange(s, s+40),
			rapid.IntRange(0, total),
		).Draw(rt, "cut")
		if x > total {
			x = total
		}
		if !seen[x] {
			seen[x] = true
			c.Cuts = append(c.Cuts, x)
		}
	}
	for i := 0; i < len(c.Cuts); i++ {
		for j := i + 1; j < len(c.Cuts); j++ {
			if c.Cuts[j] < c.Cuts[i] {
				c.Cuts[i], c.Cuts[j] = c.Cuts[j], c.Cuts[i]
			}
		}
	}
	c.Frag = rapid.SliceOfN(rapid.SampledFrom([]int{1, 1, 2, 5, 9, 17, 18, 19, 100, 70000}), 1, 5).Draw(rt, "frag")
	c.Steps = rapid.SliceOfN(rapid.SampledFrom([]int{0, 0, 1, 1, 2}), 1, 6).Draw(rt, "steps")
	c.Responder = rapid.Bool().Draw(rt, "responder")
	return c
}

func TestC16Duplex(t *testing.T) { duplexUnit(t, "C16", "TestC16Duplex") }

// TestC08Duplex: "with the two directions interleaved arbitrarily" also means
// interleaved inside a record: each direction's cipher stream keeps
// decrypting to what was written when the other direction's records are
// written / read between the fragments of this one.
func TestC08Duplex(t *testing.T) { duplexUnit(t, "C08", "TestC08Duplex") }

func duplexUnit(t *testing.T, prop, unit string) {
	rec := stats.New(t, prop, unit)
	var rc duplexCase
	if stats.ReplayCase(unit, &rc) {
		if v, _ := runC16Duplex(&rc); v != "" {
			rec.Violation(v, "duplex", rc)
			t.Fatal(v)
		}
		return
	}
	if stats.ReplayMode() {
		t.Skip()
	}
	rapid.Check(t, func(rt *rapid.T) {
		c := genC16Duplex(rt)
		rec.Current("duplex", c)
		v, inter := runC16Duplex(c)
		var labels []string
		if inter > 0 {
			labels = append(labels, "writer_step_between_inbound_fragments")
		}
		if len(c.Cuts) > 0 {
			labels = append(labels, "write_timeouts")
		}
		// non-trivial: the two directions really interleaved at fragment level
		nt := inter > 0 && len(c.Cuts) > 0
		rec.Case(nt, fmt.Sprintf("%+v", *c), labels...)
		if nt && rec.WantSample() {
			rec.Sample(c)
		}
		if v != "" {
			rec.Pending(v, "duplex", c)
			rt.Fatalf("%s", v)
		}
	})
	rec.Done()
}
