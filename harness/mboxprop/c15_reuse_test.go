package mboxprop

import (
	"bytes"
	"context"
	"fmt"
	"net"
	"sync"
	"testing"

	"github.com/lightninglabs/lightning-node-connect/mailbox"
	"pgregory.net/rapid"

	"verif/harness/stats"
)

// TestC15GrpcReuse: the NoiseGrpcConn is the node's gRPC transport
// credentials object, created once (mailbox.NewClientConn* / the server's
// grpc.Creds) and asked for a handshake on every new connection of the
// session; ClientHandshake / ServerHandshake return that same object as the
// net.Conn. So one NoiseGrpcConn per party lives through a sequence of
// connections: handshake over a fresh transport, writes in both directions,
// a reader that stops after a drawn number of Reads (gRPC gives up a
// connection whenever it likes, also in the middle of a record), the
// transport is closed, next connection.
//
// Oracle, per connection and direction: every Read returns 0 <= n <=
// len(buf) and what has been read is a prefix of what the peer wrote on THAT
// connection - nothing of an earlier connection.
type reuseRound struct {
	C2S    []int `json:"c2s"`     // write sizes client -> server
	S2C    []int `json:"s2c"`     // write sizes server -> client
	BufC   []int `json:"buf_c"`   // the client's read buffer sizes (one Read each)
	BufS   []int `json:"buf_s"`   // the server's
	ReadsC int   `json:"reads_c"` // number of Read calls the client makes before the connection is given up
	ReadsS int   `json:"reads_s"`
}

type reuseCase struct {
	Seed   uint64       `json:"seed"`
	Rounds []reuseRound `json:"rounds"`
}

func runC15Reuse(c *reuseCase) (violation string, leftover bool) {
	cli, srv := ecdhKey(c.Seed, "cli"), ecdhKey(c.Seed, "srv")
	pass := entropy(c.Seed, "pass", 14)
	auth := entropy(c.Seed, "auth", 20)
	cdC := mailbox.NewConnData(cli, nil, pass, nil, nil, nil)
	cdS := mailbox.NewConnData(srv, nil, pass, auth, nil, nil)
	nc, ns := mailbox.NewNoiseGrpcConn(cdC), mailbox.NewNoiseGrpcConn(cdS)
	for ri, r := range c.Rounds {
		cRW, sRW, _, _ := newDuplexPair()
		fc, fs := &fakeConn{duplex: cRW, name: "client"}, &fakeConn{duplex: sRW, name: "server"}
		var (
			wg         sync.WaitGroup
			cc, sc     net.Conn
			cerr, serr error
		)
		wg.Add(2)
		go func() {
			defer wg.Done()
			cc, _, cerr = nc.ClientHandshake(context.Background(), "", fc)
			if cerr != nil {
				fc.Close()
			}
		}()
		go func() {
			defer wg.Done()
			sc, _, serr = ns.ServerHandshake(fs)
			if serr != nil {
				fs.Close()
			}
		}()
		wg.Wait()
		if cerr != nil || serr != nil {
			return fmt.Sprintf("connection %d of the session: handshake failed on a clean transport: client %v, server %v", ri, cerr, serr), leftover
		}
		type dir struct {
			name   string
			w, r   net.Conn
			writes []int
			bufs   []int
			reads  int
		}
		for _, d := range []dir{{"client->server", cc, sc, r.C2S, r.BufS, r.ReadsS}, {"server->client", sc, cc, r.S2C, r.BufC, r.ReadsC}} {
			var want []byte
			for k, l := range d.writes {
				p := entropy(c.Seed, fmt.Sprintf("reuse/%d/%s/%d", ri, d.name, k), l)
				if n, err := safeConnWrite(d.w, p); err != nil || n != len(p) {
					return fmt.Sprintf("connection %d %s: Write #%d of %d bytes returned %d, %v", ri, d.name, k, len(p), n, err), leftover
				}
				want = append(want, p...)
			}
			var got []byte
			for k := 0; k < d.reads && len(got) < len(want); k++ {
				size := 1
				if len(d.bufs) > 0 {
					size = d.bufs[k%len(d.bufs)]
				}
				buf := make([]byte, size)
				n, err := safeConnRead(d.r, buf)
				if isPanic(err) {
					return fmt.Sprintf("connection %d %s: Read panicked: %v", ri, d.name, err), leftover
				}
				if n < 0 || n > size {
					return fmt.Sprintf("connection %d %s: Read with a %d byte buffer reported %d bytes", ri, d.name, size, n), leftover
				}
				if err != nil {
					return fmt.Sprintf("connection %d %s: Read failed after %d of %d bytes although the peer is open: %v", ri, d.name, len(got), len(want), err), leftover
				}
				got = append(got, buf[:n]...)
				if !bytes.HasPrefix(want, got) {
					off := firstDiff(got, want)
					return fmt.Sprintf("connection %d of the session, %s: the bytes read differ from the bytes the peer wrote on this connection from offset %d on (%d read so far, %d written); the reader's NoiseGrpcConn had been given up in the middle of a record on the previous connection",
						ri, d.name, off, len(got), len(want)), leftover
				}
			}
			if len(got) < len(want) {
				leftover = true
			}
		}
		_ = fc.Close()
		_ = fs.Close()
	}
	return "", leftover
}

func genC15Reuse(rt *rapid.T) *reuseCase {
	c := &reuseCase{Seed: rapid.Uint64().Draw(rt, "seed")}
	sizes := rapid.OneOf(rapid.IntRange(1, 200), rapid.IntRange(1, 3000), rapid.SampledFrom([]int{32769, 40000, 65535}))
	bufs := rapid.SampledFrom([]int{1, 2, 9, 64, 1000, 32768, 70000})
	n := rapid.IntRange(2, 4).Draw(rt, "rounds")
	for i := 0; i < n; i++ {
		c.Rounds = append(c.Rounds, reuseRound{
			C2S:    rapid.SliceOfN(sizes, 0, 3).Draw(rt, "c2s"),
			S2C:    rapid.SliceOfN(sizes, 0, 3).Draw(rt, "s2c"),
			BufC:   rapid.SliceOfN(bufs, 1, 3).Draw(rt, "buf_c"),
			BufS:   rapid.SliceOfN(bufs, 1, 3).Draw(rt, "buf_s"),
			ReadsC: rapid.IntRange(0, 6).Draw(rt, "reads_c"),
			ReadsS: rapid.IntRange(0, 6).Draw(rt, "reads_s"),
		})
	}
	return c
}

func TestC15GrpcReuse(t *testing.T) { reuseUnit(t, "C15", "TestC15GrpcReuse") }

// TestC02SessionReuse: the same histories seen from C02's side: what a reader
// is handed after a handshake is a prefix of what the authentic peer wrote
// under THAT handshake's keys; plaintext of an earlier session of the same
// NoiseGrpcConn object is "replayed data returned as valid" without any help
// from the relay.
func TestC02SessionReuse(t *testing.T) { reuseUnit(t, "C02", "TestC02SessionReuse") }

func reuseUnit(t *testing.T, prop, unit string) {
	rec := stats.New(t, prop, unit)
	var rc reuseCase
	if stats.ReplayCase(unit, &rc) {
		if v, _ := runC15Reuse(&rc); v != "" {
			rec.Violation(v, "reuse", rc)
			t.Fatal(v)
		}
		return
	}
	if stats.ReplayMode() {
		t.Skip()
	}
	rapid.Check(t, func(rt *rapid.T) {
		c := genC15Reuse(rt)
		rec.Current("reuse", c)
		v, leftover := runC15Reuse(c)
		var labels []string
		if leftover {
			labels = append(labels, "connection_given_up_with_unread_bytes")
		}
		rec.Case(leftover, fmt.Sprintf("%+v", *c), labels...)
		if leftover && rec.WantSample() {
			rec.Sample(c)
		}
		if v != "" {
			rec.Pending(v, "reuse", c)
			rt.Fatalf("%s", v)
		}
	})
	rec.Done()
}
