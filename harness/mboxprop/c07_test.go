package mboxprop

import (
	"bytes"
	"fmt"
	"strings"
	"testing"

	"github.com/lightninglabs/lightning-node-connect/mailbox"
	"pgregory.net/rapid"

	"verif/harness/stats"
)

// ---------- Noise handshake fed hostile bytes ----------

type noiseJunk struct {
	Cfg    hsConfig `json:"cfg"`
	Victim string   `json:"victim"` // initiator | responder
	// Msgs replaces what the peer would have sent: each entry is either a
	// mutation of the genuine act ("act:<n>:<op>:<a>:<b>") or raw hex.
	Msgs []string `json:"msgs"`
	Frag int      `json:"frag"`
}

func mutateAct(act []byte, op string, a, b int) []byte {
	out := append([]byte(nil), act...)
	if len(out) == 0 {
		return out
	}
	switch op {
	case "keep":
	case "flip":
		out[a%len(out)] ^= 1 << uint(b%8)
	case "trunc":
		out = out[:a%(len(out)+1)]
	case "extend":
		out = append(out, bytes.Repeat([]byte{byte(b)}, a%600)...)
	case "set":
		out[a%len(out)] = byte(b)
	case "zero_tail":
		for i := a % len(out); i < len(out); i++ {
			out[i] = 0
		}
	case "ff_tail":
		for i := a % len(out); i < len(out); i++ {
			out[i] = 0xff
		}
	}
	return out
}

// runNoiseJunk runs the victim's DoHandshake against scripted bytes and then,
// if it (unexpectedly) completes, ReadMessage on more junk. Oracle: no panic.
func runNoiseJunk(c *noiseJunk) (violation string, completed bool) {
	// genuine acts from a clean run with the same deterministic keys
	clean := newHSPair(c.Cfg)
	clean.run()
	var peerActs [][]byte
	if c.Victim == "initiator" {
		peerActs = clean.r2i.Written
	} else {
		peerActs = clean.i2r.Written
	}
	p := newHSPair(c.Cfg)
	if p.I.ctorErr != nil || p.R.ctorErr != nil {
		return "", false
	}
	in := newHalfPipe()
	in.frag = c.Frag
	out := newHalfPipe()
	for _, m := range c.Msgs {
		var msg []byte
		if strings.HasPrefix(m, "act:") {
			var n, a, b int
			var op string
			parts := strings.Split(m, ":")
			if len(parts) == 5 {
				fmt.Sscanf(parts[1], "%d", &n)
				op = parts[2]
				fmt.Sscanf(parts[3], "%d", &a)
				fmt.Sscanf(parts[4], "%d", &b)
			}
			if n < len(peerActs) {
				msg = mutateAct(peerActs[n], op, a, b)
			}
		} else {
			msg = unhex(m)
		}
		_, _ = in.Write(msg)
	}
	in.Close() // EOF after the script: reads never block
	victim := p.I.m
	if c.Victim == "responder" {
		victim = p.R.m
	}
	err := safeHandshake(victim, &duplex{in: in, out: out})
	if isPanic(err) {
		return fmt.Sprintf("%s DoHandshake panicked on scripted peer bytes: %v", c.Victim, err), false
	}
	if err == nil {
		completed = true
		// record layer on junk
		for _, m := range c.Msgs {
			b := unhex(strings.TrimPrefix(m, "act:"))
			if _, rerr := safeRead(victim, bytes.NewReader(append(b, make([]byte, 40)...))); isPanic(rerr) {
				return fmt.Sprintf("%s ReadMessage panicked: %v", c.Victim, rerr), true
			}
		}
	}
	return "", completed
}

func TestC07NoiseJunk(t *testing.T) {
	const unit = "TestC07NoiseJunk"
	rec := stats.New(t, "C07", unit)
	var rc noiseJunk
	if stats.ReplayCase(unit, &rc) {
		if v, _ := runNoiseJunk(&rc); v != "" {
			rec.Violation(v, "noise_junk", rc)
			t.Fatal(v)
		}
		return
	}
	if stats.ReplayMode() {
		t.Skip()
	}
	rapid.Check(t, func(rt *rapid.T) {
		c := &noiseJunk{Cfg: genCleanCfg(rt)}
		c.Cfg.AuthLen = rapid.SampledFrom([]int{0, 8, 498, 600}).Draw(rt, "auth")
		c.Victim = rapid.SampledFrom([]string{"initiator", "responder"}).Draw(rt, "victim")
		c.Frag = rapid.SampledFrom([]int{0, 0, 1, 7}).Draw(rt, "frag")
		mg := rapid.OneOf(
			rapid.Custom(func(t *rapid.T) string {
				return fmt.Sprintf("act:%d:%s:%d:%d",
					rapid.IntRange(0, 1).Draw(t, "n"),
					rapid.SampledFrom([]string{"keep", "flip", "trunc", "extend", "set", "set", "zero_tail", "ff_tail"}).Draw(t, "op"),
					rapid.IntRange(0, 700).Draw(t, "a"), rapid.IntRange(0, 255).Draw(t, "b"))
			}),
			rapid.Custom(func(t *rapid.T) string {
				return fmt.Sprintf("%x", rapid.SliceOfN(rapid.Byte(), 0, 700).Draw(t, "raw"))
			}),
			rapid.SampledFrom([]string{"", "00", "01", "02", "03", "ff", "02" + strings.Repeat("ff", 60), "00" + strings.Repeat("00", 600)}),
		)
		c.Msgs = rapid.SliceOfN(mg, 1, 4).Draw(rt, "msgs")
		rec.Current("noise_junk", c)
		v, completed := runNoiseJunk(c)
		lab := "aborted"
		if completed {
			lab = "completed"
		}
		rec.Case(true, fmt.Sprintf("%+v", *c), "noise_"+c.Victim, lab)
		if rec.WantSample() {
			rec.Sample(c)
		}
		if v != "" {
			rec.Pending(v, "noise_junk", c)
			rt.Fatalf("%s", v)
		}
	})
	rec.Done()
}

// ---------- record layer fed hostile bytes ----------

func TestC07RecordJunk(t *testing.T) {
	const unit = "TestC07RecordJunk"
	rec := stats.New(t, "C07", unit)
	var rc hexCase
	run := func(h string) string {
		p, err := established(hsConfig{Pattern: "XX", IMin: 0, IMax: 2, RMin: 0, RMax: 2, Seed: 7, AuthLen: 8, PassMode: "same"})
		if err != nil {
			return err.Error()
		}
		b := unhex(h)
		for i := 0; i < 3; i++ {
			if _, err := safeRead(p.R.m, bytes.NewReader(b)); isPanic(err) {
				return fmt.Sprintf("ReadMessage(%.40x.. len %d) panicked: %v", b, len(b), err)
			}
		}
		return ""
	}
	if stats.ReplayCase(unit, &rc) {
		if v := run(rc.Hex); v != "" {
			rec.Violation(v, "bytes", rc)
			t.Fatal(v)
		}
		return
	}
	if stats.ReplayMode() {
		t.Skip()
	}
	rapid.Check(t, func(rt *rapid.T) {
		b := rapid.OneOf(rapid.SliceOfN(rapid.Byte(), 0, 40), rapid.SliceOfN(rapid.Byte(), 0, 70000)).Draw(rt, "bytes")
		h := fmt.Sprintf("%x", b)
		rec.Case(true, b, "record_junk")
		if rec.WantSample() {
			rec.Sample(hexCase{Hex: fmt.Sprintf("%.60x", b)})
		}
		if v := run(h); v != "" {
			rec.Pending(v, "bytes", hexCase{Hex: h})
			rt.Fatalf("%s", v)
		}
	})
	rec.Done()
}

// ---------- websocket JSON envelope ----------

func jsonProbe(s string) (violation string, accepted bool) {
	defer func() {
		if r := recover(); r != nil {
			violation = fmt.Sprintf("websocket envelope decoding panicked on %.80q: %v", s, r)
		}
	}()
	un, err := mailbox.VerifStripJSONWrapper(s)
	if err != nil {
		return "", false
	}
	if _, err := mailbox.VerifUnmarshalCipherBox(un); err != nil {
		return "", false
	}
	return "", true
}

func TestC07JSONEnvelope(t *testing.T) {
	const unit = "TestC07JSONEnvelope"
	rec := stats.New(t, "C07", unit)
	var rc struct {
		S string `json:"s"`
	}
	if stats.ReplayCase(unit, &rc) {
		if v, _ := jsonProbe(rc.S); v != "" {
			rec.Violation(v, "json", rc)
			t.Fatal(v)
		}
		return
	}
	if stats.ReplayMode() {
		t.Skip()
	}
	frag := rapid.SampledFrom([]string{"{", "}", "[", "]", ":", ",", "\"", "\\", "result", "error", "desc", "stream_id", "msg",
		"{\"result\":", "{\"error\":", "null", "true", "1e999", "-0", "\"AAAA\"", "\"////\"", "\"=\"", "\\u0000", "\\ud800", "\n", " ", "{}", "[]",
		"{\"desc\":{\"stream_id\":\"AA==\"},\"msg\":\"AQID\"}", "\"msg\":", "\"msg\":12", "\"msg\":[1]", "\"msg\":{\"a\":1}"})
	rapid.Check(t, func(rt *rapid.T) {
		var s string
		switch rapid.IntRange(0, 2).Draw(rt, "mode") {
		case 0:
			s = strings.Join(rapid.SliceOfN(frag, 0, 24).Draw(rt, "frags"), "")
		case 1:
			inner := strings.Join(rapid.SliceOfN(frag, 0, 12).Draw(rt, "inner"), "")
			s = rapid.SampledFrom([]string{"{\"result\":%s}", "{\"error\":%s}", "{\"result\":%s", "{\"result\":{\"result\":%s}}"}).Draw(rt, "wrap")
			s = fmt.Sprintf(s, inner)
		default:
			s = string(rapid.SliceOfN(rapid.Byte(), 0, 300).Draw(rt, "raw"))
		}
		v, ok := jsonProbe(s)
		rec.Case(true, s, map[bool]string{true: "json_accepted", false: "json_rejected"}[ok])
		if rec.WantSample() {
			rec.Sample(map[string]string{"s": fmt.Sprintf("%.100q", s)})
		}
		if v != "" {
			rec.Pending(v, "json", map[string]string{"s": s})
			rt.Fatalf("%s", v)
		}
	})
	rec.Done()
}

// ---------- control message framing, enumerated ----------

func TestC07MsgDataEnum(t *testing.T) {
	const unit = "TestC07MsgDataEnum"
	rec := stats.New(t, "C07", unit)
	var rc hexCase
	if stats.ReplayCase(unit, &rc) {
		if _, _, p := msgDataDeserialize(unhex(rc.Hex)); p != "" {
			rec.Violation("MsgData.Deserialize panicked: "+p, "bytes", rc)
			t.Fatal(p)
		}
		return
	}
	if stats.ReplayMode() {
		t.Skip()
	}
	var total int64
	nviol := 0
	try := func(b []byte) {
		total++
		if _, _, p := msgDataDeserialize(b); p != "" && nviol < 5 {
			nviol++
			rec.Violation(fmt.Sprintf("MsgData.Deserialize(%x) panicked: %s", b, p), "bytes", hexCase{Hex: fmt.Sprintf("%x", b)})
		}
	}
	try(nil)
	b := make([]byte, 3)
	for x := 0; x < 256; x++ {
		try([]byte{byte(x)})
		for y := 0; y < 256; y++ {
			try([]byte{byte(x), byte(y)})
		}
	}
	for x := 0; x < 256; x += 17 {
		for y := 0; y < 256; y++ {
			for z := 0; z < 256; z++ {
				b[0], b[1], b[2] = byte(x), byte(y), byte(z)
				try(b)
			}
		}
	}
	// 5-byte headers with every value of each length byte, body lengths 0..3
	for pos := 1; pos <= 4; pos++ {
		for v := 0; v < 256; v++ {
			for body := 0; body < 4; body++ {
				h := []byte{0, 0, 0, 0, 0}
				h[pos] = byte(v)
				try(append(h, make([]byte, body)...))
			}
		}
	}
	// boundary values of the 32-bit length field (every combination of
	// boundary bytes, so that header length + payload length wraps in 32 bits,
	// reaches the sign bit, or is just above / below the real body length)
	bv := []byte{0x00, 0x01, 0x02, 0x7f, 0x80, 0xfa, 0xfb, 0xfc, 0xfd, 0xfe, 0xff}
	for _, ver := range []byte{0, 1, 0xff} {
		for _, b1 := range bv {
			for _, b2 := range bv {
				for _, b3 := range bv {
					for _, b4 := range bv {
						for _, body := range []int{0, 1, 2, 4, 5, 250, 260} {
							h := []byte{ver, b1, b2, b3, b4}
							try(append(h, make([]byte, body)...))
						}
					}
				}
			}
		}
	}
	rec.CaseN(total, total, "C07MsgDataEnum", "msgdata_enum")
	rec.Sample(map[string]any{"enumerated": "MsgData.Deserialize: all byte strings <= 2, 16 first-byte values x all 2-byte tails, every value of each length byte with bodies 0..3, all 11^4 combinations of boundary bytes in the length field x 3 versions x 7 body lengths", "count": total})
	rec.SetExhaustive(true)
	rec.Done()
	if nviol > 0 {
		t.Fatalf("%d violations", nviol)
	}
}
