package mboxprop

import (
	"bytes"
	"fmt"
	"net"
	"testing"

	"pgregory.net/rapid"

	"verif/harness/stats"
)

// TestC15Interleaved: the stream contract per connection, with several
// connections alive in one process (a node serves many sessions; one session
// has two directions). Two sessions of the same kind, both directions each:
// everything is written first (the in-memory transports are unbounded), then
// the four readers advance one Read at a time in a drawn order with drawn
// buffer sizes, so that a record is routinely left half-read while records of
// the other direction and of the other session are read. Whatever a
// connection keeps between two Reads (the undelivered tail of a record) must
// be its own.
//
// Oracle per stream: 0 <= n <= len(buf), nothing written beyond the buffer,
// no error, and the concatenation read equals the concatenation written on
// the peer connection of that stream.
type ilCase struct {
	Kind   string   `json:"kind"` // grpc | tcp
	Seed   uint64   `json:"seed"`
	KK     bool     `json:"kk"`
	Writes [4][]int `json:"writes"` // stream 0: A client->server, 1: A server->client, 2: B c->s, 3: B s->c
	// Steps: (stream, buffer size) pairs; after the script every stream is
	// drained with the last buffer sizes.
	Steps [][2]int `json:"steps"`
}

func runC15Interleaved(c *ilCase) (violation string, halfRead int) {
	var pairs [2]*connPair
	for i := range pairs {
		p, err := newConnPair(c.Kind, c.Seed+uint64(i)*7919, c.KK, 20)
		if err != nil {
			return err.Error(), 0
		}
		defer p.Close()
		pairs[i] = p
	}
	type stream struct {
		w, r net.Conn
		want []byte
		got  []byte
	}
	streams := []*stream{
		{w: pairs[0].C, r: pairs[0].S}, {w: pairs[0].S, r: pairs[0].C},
		{w: pairs[1].C, r: pairs[1].S}, {w: pairs[1].S, r: pairs[1].C},
	}
	maxWrite := 0
	for i, st := range streams {
		for k, l := range c.Writes[i] {
			p := entropy(c.Seed, fmt.Sprintf("il/%d/%d", i, k), l)
			n, err := safeConnWrite(st.w, p)
			if err != nil || n != len(p) {
				return fmt.Sprintf("stream %d: Write #%d of %d bytes returned %d, %v", i, k, len(p), n, err), 0
			}
			st.want = append(st.want, p...)
			if l > maxWrite {
				maxWrite = l
			}
		}
	}
	readOne := func(i, size int) string {
		st := streams[i]
		if len(st.got) >= len(st.want) {
			return "" // nothing left: a Read would block
		}
		if size < 1 {
			size = 1
		}
		back := make([]byte, size+64)
		for j := range back {
			back[j] = 0xA5
		}
		buf := back[:size:size]
		n, err := safeConnRead(st.r, buf)
		if isPanic(err) {
			return fmt.Sprintf("stream %d: Read with a %d byte buffer panicked: %v", i, size, err)
		}
		if n < 0 || n > size {
			return fmt.Sprintf("stream %d: Read with a %d byte buffer reported %d bytes", i, size, n)
		}
		if !bytes.Equal(back[size:], bytes.Repeat([]byte{0xA5}, 64)) {
			return fmt.Sprintf("stream %d: Read wrote beyond its %d byte buffer", i, size)
		}
		if err != nil {
			return fmt.Sprintf("stream %d: Read returned %q after %d of %d bytes although the peer is open", i, err, len(st.got), len(st.want))
		}
		st.got = append(st.got, buf[:n]...)
		if !bytes.HasPrefix(st.want, st.got) {
			d := firstDiff(st.got, st.want)
			// whose bytes are they?
			whose := "nobody's"
			for j, o := range streams {
				if j != i && d < len(st.got) && len(st.got)-d >= 8 && bytes.Contains(o.want, st.got[d:minInt(len(st.got), d+16)]) {
					whose = fmt.Sprintf("bytes written on stream %d", j)
				}
			}
			return fmt.Sprintf("stream %d (%s): bytes read differ from bytes written from offset %d on (%d read, buffer %d); the wrong bytes are %s - reads of other connections came between two Reads of one record",
				i, c.Kind, d, len(st.got), size, whose)
		}
		return ""
	}
	last := [4]int{1, 1, 1, 1}
	for _, s := range c.Steps {
		i := s[0] % 4
		st := streams[i]
		// a record left half-read while another stream is read next
		if len(st.got) < len(st.want) && s[1] < maxWrite {
			halfRead++
		}
		last[i] = s[1]
		if v := readOne(i, s[1]); v != "" {
			return v, halfRead
		}
	}
	// drain round-robin
	for guard := 0; guard < 4000000; guard++ {
		progress := false
		for i, st := range streams {
			if len(st.got) < len(st.want) {
				progress = true
				if v := readOne(i, last[i]); v != "" {
					return v, halfRead
				}
			}
		}
		if !progress {
			break
		}
	}
	for i, st := range streams {
		if !bytes.Equal(st.got, st.want) {
			return fmt.Sprintf("stream %d: read %d bytes, %d were written", i, len(st.got), len(st.want)), halfRead
		}
	}
	return "", halfRead
}

func genC15Interleaved(rt *rapid.T, kind string) *ilCase {
	c := &ilCase{Kind: kind, Seed: rapid.Uint64().Draw(rt, "seed"), KK: rapid.Bool().Draw(rt, "kk")}
	sizes := rapid.OneOf(rapid.IntRange(1, 300), rapid.IntRange(1, 300), rapid.IntRange(1, 5000),
		rapid.SampledFrom([]int{1000, 32767, 32768, 32769, 40000, 65535}))
	for i := range c.Writes {
		c.Writes[i] = rapid.SliceOfN(sizes, 0, 4).Draw(rt, fmt.Sprintf("writes%d", i))
	}
	bufs := rapid.SampledFrom([]int{1, 2, 7, 64, 100, 1000, 32767, 32768, 32769, 65535, 70000})
	n := rapid.IntRange(0, 40).Draw(rt, "nsteps")
	for k := 0; k < n; k++ {
		c.Steps = append(c.Steps, [2]int{rapid.IntRange(0, 3).Draw(rt, "stream"), bufs.Draw(rt, "buf")})
	}
	return c
}

func TestC15Interleaved(t *testing.T) {
	const unit = "TestC15Interleaved"
	rec := stats.New(t, "C15", unit)
	var rc ilCase
	if stats.ReplayCase(unit, &rc) {
		for i := 0; i < 5; i++ {
			if v, _ := runC15Interleaved(&rc); v != "" {
				rec.Violation(v, "interleaved", rc)
				t.Fatal(v)
			}
		}
		return
	}
	if stats.ReplayMode() {
		t.Skip()
	}
	rapid.Check(t, func(rt *rapid.T) {
		kind := rapid.SampledFrom([]string{"grpc", "grpc", "tcp"}).Draw(rt, "kind")
		c := genC15Interleaved(rt, kind)
		rec.Current("interleaved", c)
		v, half := runC15Interleaved(c)
		var labels []string
		if half > 0 {
			labels = append(labels, "record_left_half_read_while_another_connection_reads")
		}
		rec.Case(half > 0, fmt.Sprintf("%+v", *c), append(labels, kind)...)
		if half > 0 && rec.WantSample() {
			rec.Sample(c)
		}
		if v != "" {
			rec.Pending(v, "interleaved", c)
			rt.Fatalf("%s", v)
		}
	})
	rec.Done()
}
