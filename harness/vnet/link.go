// Package vnet is a virtual-time, order-preserving, lossy link between two GBN
// endpoints, plus a scenario interpreter. It is meant to run inside a
// testing/synctest bubble (all timers virtual) but also works in real time.
package vnet

import (
	"context"
	"errors"
	"fmt"
	"sync"
	"time"

	"github.com/lightninglabs/lightning-node-connect/gbn"
)

// Decision kinds.
const (
	Deliver = "deliver"
	Drop    = "drop"
	Dup     = "dup"
	Delay   = "delay"
	// Fail: the transport's send function returns an error for this packet
	// (nothing is put on the wire).
	Fail = "fail"
)

// Decision is the fate of one packet (by ordinal on its direction).
type Decision struct {
	Kind    string `json:"k"`
	Copies  int    `json:"n,omitempty"`  // extra copies for dup
	DelayMs int    `json:"ms,omitempty"` // extra delay for delay
}

// TraceEvent is one packet event on a link.
type TraceEvent struct {
	T    int64  `json:"t"`   // virtual microseconds since scenario start
	Dir  string `json:"dir"` // c2s or s2c
	Ev   string `json:"ev"`  // send | recv (handed to recvFunc caller) | inject
	Type string `json:"type"`
	Seq  int    `json:"seq"`
	Fl   string `json:"fl,omitempty"`
	Len  int    `json:"len"`
	Dec  string `json:"dec,omitempty"`
	Ord  int    `json:"ord"`
	// SentT is, for recv events, the time the packet was offered to the link.
	SentT int64 `json:"sent_t,omitempty"`
}

func (e TraceEvent) String() string {
	return fmt.Sprintf("%9.3fms %s %-4s %-6s seq=%-3d %s len=%d %s", float64(e.T)/1000,
		e.Dir, e.Ev, e.Type, e.Seq, e.Fl, e.Len, e.Dec)
}

// Trace is a concurrency-safe packet trace shared by both directions.
type Trace struct {
	mu     sync.Mutex
	start  time.Time
	Events []TraceEvent
	max    int
	// Observers are called (under the trace mutex) for every event. They
	// must not block.
	Observers []func(e TraceEvent)
}

// NewTrace creates a trace whose time origin is now.
func NewTrace(max int) *Trace {
	return &Trace{start: time.Now(), max: max}
}

// Mu exposes the trace mutex so that observers' state can be read safely.
func (t *Trace) Mu() *sync.Mutex { return &t.mu }

// Now returns virtual microseconds since the trace origin.
func (t *Trace) Now() int64 { return time.Since(t.start).Microseconds() }

func (t *Trace) add(e TraceEvent) {
	t.mu.Lock()
	defer t.mu.Unlock()
	if t.max == 0 || len(t.Events) < t.max {
		t.Events = append(t.Events, e)
	}
	for _, o := range t.Observers {
		o(e)
	}
}

// Snapshot returns a copy of the events so far.
func (t *Trace) Snapshot() []TraceEvent {
	t.mu.Lock()
	defer t.mu.Unlock()
	return append([]TraceEvent(nil), t.Events...)
}

// Tail renders the last n events.
func (t *Trace) Tail(n int) []string {
	ev := t.Snapshot()
	if len(ev) > n {
		ev = ev[len(ev)-n:]
	}
	out := make([]string, len(ev))
	for i, e := range ev {
		out[i] = e.String()
	}
	return out
}

// Describe decodes a packet for the trace.
func Describe(b []byte) (typ string, seq int, fl string) {
	seq = -1
	if len(b) == 0 {
		return "EMPTY", seq, ""
	}
	m, err := safeDeserialize(b)
	if err != nil {
		return fmt.Sprintf("BAD(%02x)", b[0]), seq, ""
	}
	switch v := m.(type) {
	case *gbn.PacketData:
		fl = ""
		if v.FinalChunk {
			fl += "F"
		}
		if v.IsPing {
			fl += "P"
		}
		return "DATA", int(v.Seq), fl
	case *gbn.PacketACK:
		return "ACK", int(v.Seq), ""
	case *gbn.PacketNACK:
		return "NACK", int(v.Seq), ""
	case *gbn.PacketSYN:
		return "SYN", int(v.N), ""
	case *gbn.PacketSYNACK:
		return "SYNACK", -1, ""
	case *gbn.PacketFIN:
		return "FIN", -1, ""
	}
	return "?", seq, ""
}

func safeDeserialize(b []byte) (m gbn.Message, err error) {
	defer func() {
		if r := recover(); r != nil {
			err = fmt.Errorf("panic: %v", r)
		}
	}()
	return gbn.Deserialize(b)
}

type item struct {
	at   time.Time
	b    []byte
	sent int64
}

// Link is one direction of the transport: a FIFO of (deliverAt, bytes).
// Per-direction order is always preserved; duplicates are adjacent.
type Link struct {
	Name    string
	Latency time.Duration

	mu          sync.Mutex
	script      []Decision
	ord         int // ordinal of the next packet offered while armed
	total       int // all packets ever offered
	armed       bool
	until       time.Time // faults are applied only before this instant (zero: no limit)
	q           []item
	lastAt      time.Time
	wake        chan struct{} // closed and replaced whenever the queue changes
	silent      bool          // drop everything offered (peer unreachable)
	hold        bool          // Send blocks until its ctx is done
	gosched     int           // call runtime.Gosched every n-th operation (0: never)
	lastFaultAt time.Time     // when the last non-deliver decision was applied
	// lastFaultDue is when the last packet held back by a delay decision
	// becomes due. Packets queued behind it are due no later (FIFO), and a
	// packet's ordinary latency does not count as a fault.
	lastFaultDue time.Time
	trace        *Trace
	// dropNext: number of packets of type dropType still to be dropped
	// (a targeted fault: "lose the next k ACKs").
	dropNext int
	dropType string

	// Counters.
	Dropped, Duplicated, Delayed, Offered int
}

// NewLink creates a link.
func NewLink(name string, latency time.Duration, script []Decision, tr *Trace) *Link {
	return &Link{
		Name:    name,
		Latency: latency,
		script:  script,
		wake:    make(chan struct{}),
		trace:   tr,
	}
}

// DropNext makes the link lose the next n packets of the given type (as named
// by Describe: SYN, DATA, ACK, ...), independently of the fault script.
func (l *Link) DropNext(typ string, n int) {
	l.mu.Lock()
	defer l.mu.Unlock()
	l.dropType, l.dropNext = typ, n
}

// Arm starts applying the fault script (from its first entry) to packets
// offered from now on; until is the instant after which the link is reliable
// again (zero: only script exhaustion ends the faults).
func (l *Link) Arm(until time.Time) {
	l.mu.Lock()
	defer l.mu.Unlock()
	l.armed = true
	l.until = until
}

// Disarm makes the link reliable from now on.
func (l *Link) Disarm() {
	l.mu.Lock()
	defer l.mu.Unlock()
	l.armed = false
}

// SetSilent makes the link drop everything (true) or behave again (false).
func (l *Link) SetSilent(v bool) {
	l.mu.Lock()
	defer l.mu.Unlock()
	l.silent = v
	if v {
		l.q = nil
	}
}

// SetHold makes Send block until its context is cancelled.
func (l *Link) SetHold(v bool) {
	l.mu.Lock()
	defer l.mu.Unlock()
	l.hold = v
	l.signal()
}

// FaultsActive reports whether a scripted fault can still be applied.
func (l *Link) FaultsActive() bool {
	l.mu.Lock()
	defer l.mu.Unlock()
	return l.faultsActiveLocked()
}

func (l *Link) faultsActiveLocked() bool {
	if !l.armed || l.ord >= len(l.script) {
		return false
	}
	if !l.until.IsZero() && !time.Now().Before(l.until) {
		return false
	}
	return true
}

// LastFault returns the instant the last non-deliver decision was applied and
// the instant the last packet held back by a delay decision is due.
func (l *Link) LastFault() (time.Time, time.Time) {
	l.mu.Lock()
	defer l.mu.Unlock()
	return l.lastFaultAt, l.lastFaultDue
}

// Pending returns the number of queued packets.
func (l *Link) Pending() int {
	l.mu.Lock()
	defer l.mu.Unlock()
	return len(l.q)
}

func (l *Link) signal() {
	close(l.wake)
	l.wake = make(chan struct{})
}

func (l *Link) enqueue(b []byte, extra time.Duration) {
	at := time.Now().Add(l.Latency + extra)
	if at.Before(l.lastAt) {
		at = l.lastAt
	}
	l.lastAt = at
	l.q = append(l.q, item{at: at, b: b, sent: l.trace.Now()})
}

// Inject queues raw bytes as if the peer had sent them (not subject to the
// fault script).
func (l *Link) Inject(b []byte) {
	l.mu.Lock()
	defer l.mu.Unlock()
	typ, seq, fl := Describe(b)
	l.trace.add(TraceEvent{T: l.trace.Now(), Dir: l.Name, Ev: "inject", Type: typ, Seq: seq, Fl: fl, Len: len(b), Ord: -1})
	l.enqueue(append([]byte(nil), b...), 0)
	l.signal()
}

// ErrSendFailed is what Send returns for a Fail decision.
var ErrSendFailed = errors.New("transport: send failed")

// Send is the sendFunc of the sending endpoint.
func (l *Link) Send(ctx context.Context, b []byte) error {
	if err := ctx.Err(); err != nil {
		return err
	}
	l.mu.Lock()
	for l.hold {
		w := l.wake
		l.mu.Unlock()
		select {
		case <-ctx.Done():
			return ctx.Err()
		case <-w:
		}
		l.mu.Lock()
	}
	defer l.mu.Unlock()

	cp := append([]byte(nil), b...)
	typ, seq, fl := Describe(cp)
	l.total++
	l.Offered++
	d := Decision{Kind: Deliver}
	ord := -1
	if l.silent {
		d = Decision{Kind: Drop}
	} else if l.faultsActiveLocked() {
		d = l.script[l.ord]
		ord = l.ord
		l.ord++
	} else if l.armed {
		l.ord++
	}
	if l.dropNext > 0 && typ == l.dropType {
		l.dropNext--
		d = Decision{Kind: Drop}
	}
	dec := d.Kind
	if d.Kind == Fail {
		l.lastFaultAt = time.Now()
		l.trace.add(TraceEvent{T: l.trace.Now(), Dir: l.Name, Ev: "sendfail", Type: typ, Seq: seq, Fl: fl, Len: len(cp), Dec: "fail", Ord: ord})
		return ErrSendFailed
	}
	switch d.Kind {
	case Drop:
		l.Dropped++
		l.lastFaultAt = time.Now()
	case Dup:
		n := d.Copies
		if n < 1 {
			n = 1
		}
		dec = fmt.Sprintf("dup%d", n)
		l.Duplicated++
		l.lastFaultAt = time.Now()
		for i := 0; i <= n; i++ {
			l.enqueue(cp, 0)
		}
	case Delay:
		dec = fmt.Sprintf("delay%dms", d.DelayMs)
		l.Delayed++
		l.lastFaultAt = time.Now()
		l.enqueue(cp, time.Duration(d.DelayMs)*time.Millisecond)
		l.lastFaultDue = l.lastAt
	default:
		dec = ""
		l.enqueue(cp, 0)
	}
	l.trace.add(TraceEvent{T: l.trace.Now(), Dir: l.Name, Ev: "send", Type: typ, Seq: seq, Fl: fl, Len: len(cp), Dec: dec, Ord: ord})
	l.signal()
	return nil
}

// Recv is the recvFunc of the receiving endpoint. Concurrent callers are
// tolerated (each queued packet goes to exactly one of them).
func (l *Link) Recv(ctx context.Context) ([]byte, error) {
	for {
		if err := ctx.Err(); err != nil {
			return nil, err
		}
		l.mu.Lock()
		now := time.Now()
		var wait time.Duration = -1
		if len(l.q) > 0 {
			if !l.q[0].at.After(now) {
				it := l.q[0]
				l.q = l.q[1:]
				typ, seq, fl := Describe(it.b)
				l.trace.add(TraceEvent{T: l.trace.Now(), Dir: l.Name, Ev: "recv", Type: typ, Seq: seq, Fl: fl, Len: len(it.b), Ord: -1, SentT: it.sent})
				l.mu.Unlock()
				return it.b, nil
			}
			wait = l.q[0].at.Sub(now)
		}
		w := l.wake
		l.mu.Unlock()

		if wait >= 0 {
			tm := time.NewTimer(wait)
			select {
			case <-ctx.Done():
				tm.Stop()
				return nil, ctx.Err()
			case <-tm.C:
			case <-w:
				tm.Stop()
			}
		} else {
			select {
			case <-ctx.Done():
				return nil, ctx.Err()
			case <-w:
			}
		}
	}
}
