package vnet

import (
	"bytes"
	"context"
	"encoding/binary"
	"fmt"
	"os"
	"regexp"
	"runtime"
	"strings"
	"sync"
	"testing"
	"testing/synctest"
	"time"

	"github.com/lightninglabs/lightning-node-connect/gbn"
)

// TimeoutCfg selects the gbn timeout options of one endpoint.
type TimeoutCfg struct {
	Static      bool `json:"static"`
	ResendMs    int  `json:"resend_ms,omitempty"` // static resend timeout
	HandshakeMs int  `json:"hs_ms,omitempty"`     // 0: package default (1s)
	Mult        int  `json:"mult,omitempty"`
	Freq        int  `json:"freq,omitempty"`
	BoostPct    int  `json:"boost_pct,omitempty"`
	PingMs      int  `json:"ping_ms,omitempty"`
	PongMs      int  `json:"pong_ms,omitempty"`
}

// Options converts the configuration to gbn timeout options.
func (c TimeoutCfg) Options() []gbn.TimeoutOptions {
	var o []gbn.TimeoutOptions
	if c.Static {
		o = append(o, gbn.WithStaticResendTimeout(time.Duration(c.ResendMs)*time.Millisecond))
	}
	if c.HandshakeMs > 0 {
		o = append(o, gbn.WithHandshakeTimeout(time.Duration(c.HandshakeMs)*time.Millisecond))
	}
	if c.Mult > 0 {
		o = append(o, gbn.WithResendMultiplier(c.Mult))
	}
	if c.Freq > 0 {
		o = append(o, gbn.WithTimeoutUpdateFrequency(c.Freq))
	}
	if c.BoostPct > 0 {
		o = append(o, gbn.WithBoostPercent(float32(c.BoostPct)/100))
	}
	if c.PingMs > 0 {
		o = append(o, gbn.WithKeepalivePing(time.Duration(c.PingMs)*time.Millisecond,
			time.Duration(c.PongMs)*time.Millisecond))
	}
	return o
}

// Keepalive reports whether keepalive is enabled.
func (c TimeoutCfg) Keepalive() bool { return c.PingMs > 0 }

// InitialResend returns the resend timeout the endpoint starts with.
func (c TimeoutCfg) InitialResend() time.Duration {
	if c.Static {
		return time.Duration(c.ResendMs) * time.Millisecond
	}
	return time.Second
}

// InitialHandshake returns the configured handshake timeout.
func (c TimeoutCfg) InitialHandshake() time.Duration {
	if c.HandshakeMs > 0 {
		return time.Duration(c.HandshakeMs) * time.Millisecond
	}
	return time.Second
}

// Msg is one application message to send.
type Msg struct {
	Len   int `json:"len"`
	GapMs int `json:"gap_ms,omitempty"` // pause before offering it
}

// Event is a scripted action at a virtual time after the data phase started.
type Event struct {
	AtMs int    `json:"at_ms"`
	Kind string `json:"kind"` // close | silence | unsilence | hold | unhold | cancel
	Who  string `json:"who"`  // client | server | both | c2s | s2c
	Arg  int    `json:"arg,omitempty"`
}

// Scenario is plain data describing one conversation. It is drawn completely
// before anything runs, so it shrinks as one value and is its own replay file.
type Scenario struct {
	N        int `json:"n"`
	MaxChunk int `json:"max_chunk,omitempty"`
	// MaxChunkSrv, if non-zero, is the server's max chunk size (-1: none);
	// otherwise both ends use MaxChunk.
	MaxChunkSrv int `json:"max_chunk_srv,omitempty"`
	// NoRecvC2S / NoRecvS2C: the application receiving that direction never
	// calls Recv (the endpoint's receive buffer fills up).
	NoRecvC2S bool `json:"norecv_c2s,omitempty"`
	NoRecvS2C bool `json:"norecv_s2c,omitempty"`
	// SlowRecvC2S / SlowRecvS2C: the application receiving that direction
	// stays out of Recv for a while: StartMs before its first call, and
	// PauseMs after every EveryN-th message (the endpoint's receive buffer
	// fills up meanwhile and its receive loop has to wait with the next
	// packet).
	SlowRecvC2S *SlowRecv  `json:"slow_recv_c2s,omitempty"`
	SlowRecvS2C *SlowRecv  `json:"slow_recv_s2c,omitempty"`
	Client      TimeoutCfg `json:"client"`
	Server      TimeoutCfg `json:"server"`
	LatC2SMs    int        `json:"lat_c2s_ms"`
	LatS2CMs    int        `json:"lat_s2c_ms"`
	C2S         []Msg      `json:"c2s,omitempty"`
	S2C         []Msg      `json:"s2c,omitempty"`

	FaultsC2S       []Decision `json:"faults_c2s,omitempty"`
	FaultsS2C       []Decision `json:"faults_s2c,omitempty"`
	FaultsFromStart bool       `json:"faults_from_start,omitempty"`
	FaultUntilMs    int        `json:"fault_until_ms,omitempty"`

	Events     []Event        `json:"events,omitempty"`
	DeadlineMs int            `json:"deadline_ms"`
	QuiesceMs  int            `json:"quiesce_ms,omitempty"`
	Gosched    int            `json:"gosched,omitempty"`
	Extra      map[string]int `json:"extra,omitempty"`
}

// SlowRecv describes a receiving application that pauses.
type SlowRecv struct {
	StartMs int `json:"start_ms,omitempty"`
	EveryN  int `json:"every_n,omitempty"`
	PauseMs int `json:"pause_ms,omitempty"`
}

// Payload builds the deterministic payload of message idx on direction dir.
func Payload(dir byte, idx int, n int) []byte {
	b := make([]byte, 0, n+8)
	var hdr [5]byte
	hdr[0] = dir
	binary.BigEndian.PutUint32(hdr[1:], uint32(idx))
	b = append(b, hdr[:]...)
	x := uint64(idx)*0x9e3779b97f4a7c15 ^ uint64(dir)<<56 ^ 0xdeadbeefcafef00d
	for len(b) < n {
		x ^= x << 13
		x ^= x >> 7
		x ^= x << 17
		b = append(b, byte(x>>24))
	}
	return b[:n]
}

// DirState is what the harness observed on one direction.
type DirState struct {
	Name                         string
	Offered                      [][]byte
	SendDone                     []int64 // virtual us at which Send(i) returned nil
	SendStart                    []int64
	SendErrAt                    int // index of the first Send that failed (-1: none)
	SendErr                      error
	SendErrT                     int64
	Recv                         [][]byte
	RecvAt                       []int64
	RecvErr                      error
	RecvErrT                     int64
	SenderExited, ReceiverExited bool
}

// Env is a running scenario.
type Env struct {
	Sc    *Scenario
	Trace *Trace
	C2S   *Link
	S2C   *Link

	Client, Server             *gbn.GoBackNConn
	ClientErr, ServerErr       error
	ClientDoneAt, ServerDoneAt int64

	ctxC, ctxS       context.Context
	CancelC, CancelS context.CancelFunc

	Mu  sync.Mutex
	Dir [2]*DirState // 0: client->server, 1: server->client

	DataStart int64 // virtual us when both constructors had returned
	appWG     sync.WaitGroup
	hsWG      sync.WaitGroup
	changed   chan struct{}
}

// NewEnv creates the links of a scenario. Must be called inside the bubble.
func NewEnv(sc *Scenario) *Env {
	tr := NewTrace(200000)
	e := &Env{Sc: sc, Trace: tr, changed: make(chan struct{}, 1)}
	e.C2S = NewLink("c2s", time.Duration(sc.LatC2SMs)*time.Millisecond, sc.FaultsC2S, tr)
	e.S2C = NewLink("s2c", time.Duration(sc.LatS2CMs)*time.Millisecond, sc.FaultsS2C, tr)
	e.C2S.gosched, e.S2C.gosched = sc.Gosched, sc.Gosched
	e.Dir[0] = &DirState{Name: "c2s", SendErrAt: -1}
	e.Dir[1] = &DirState{Name: "s2c", SendErrAt: -1}
	for i, m := range sc.C2S {
		e.Dir[0].Offered = append(e.Dir[0].Offered, Payload('c', i, m.Len))
	}
	for i, m := range sc.S2C {
		e.Dir[1].Offered = append(e.Dir[1].Offered, Payload('s', i, m.Len))
	}
	e.ctxC, e.CancelC = context.WithCancel(context.Background())
	e.ctxS, e.CancelS = context.WithCancel(context.Background())
	if sc.FaultsFromStart {
		e.ArmFaults()
	}
	return e
}

// ArmFaults starts applying the fault scripts.
func (e *Env) ArmFaults() {
	var until time.Time
	if e.Sc.FaultUntilMs > 0 {
		until = time.Now().Add(time.Duration(e.Sc.FaultUntilMs) * time.Millisecond)
	}
	e.C2S.Arm(until)
	e.S2C.Arm(until)
}

func (e *Env) opts(c TimeoutCfg, server bool) []gbn.Option {
	o := []gbn.Option{gbn.WithTimeoutOptions(c.Options()...)}
	chunk := e.Sc.MaxChunk
	if server && e.Sc.MaxChunkSrv != 0 {
		chunk = e.Sc.MaxChunkSrv
	}
	if chunk > 0 {
		o = append(o, gbn.WithMaxSendSize(chunk))
	}
	return o
}

// StartHandshake launches both constructors.
func (e *Env) StartHandshake() {
	e.hsWG.Add(2)
	go func() {
		defer e.hsWG.Done()
		c, err := gbn.NewServerConn(e.ctxS, e.S2C.Send, e.C2S.Recv, e.opts(e.Sc.Server, true)...)
		e.Mu.Lock()
		e.Server, e.ServerErr, e.ServerDoneAt = c, err, e.Trace.Now()
		e.Mu.Unlock()
	}()
	go func() {
		defer e.hsWG.Done()
		c, err := gbn.NewClientConn(e.ctxC, uint8(e.Sc.N), e.C2S.Send, e.S2C.Recv, e.opts(e.Sc.Client, false)...)
		e.Mu.Lock()
		e.Client, e.ClientErr, e.ClientDoneAt = c, err, e.Trace.Now()
		e.Mu.Unlock()
	}()
}

// WaitHandshake waits for both constructors; after d it cancels the contexts
// (which makes the constructors return) and reports false.
func (e *Env) WaitHandshake(d time.Duration) bool {
	done := make(chan struct{})
	go func() { e.hsWG.Wait(); close(done) }()
	ok := true
	select {
	case <-done:
	case <-time.After(d):
		ok = false
		e.CancelC()
		e.CancelS()
		<-done
	}
	e.DataStart = e.Trace.Now()
	return ok && e.Client != nil && e.Server != nil
}

func (e *Env) notify() {
	select {
	case e.changed <- struct{}{}:
	default:
	}
}

// conn returns the sending and receiving endpoint of direction d.
func (e *Env) conn(d int) (snd, rcv *gbn.GoBackNConn) {
	if d == 0 {
		return e.Client, e.Server
	}
	return e.Server, e.Client
}

// StartSender starts the sender goroutine of direction d.
func (e *Env) StartSender(d int) {
	snd, _ := e.conn(d)
	ds := e.Dir[d]
	msgs := e.Sc.C2S
	if d == 1 {
		msgs = e.Sc.S2C
	}
	e.appWG.Add(1)
	go func() {
		defer e.appWG.Done()
		defer func() {
			e.Mu.Lock()
			ds.SenderExited = true
			e.Mu.Unlock()
			e.notify()
		}()
		for i, m := range msgs {
			if m.GapMs > 0 {
				time.Sleep(time.Duration(m.GapMs) * time.Millisecond)
			}
			e.Mu.Lock()
			ds.SendStart = append(ds.SendStart, e.Trace.Now())
			e.Mu.Unlock()
			e.notify()
			err := snd.Send(ds.Offered[i])
			e.Mu.Lock()
			if err != nil {
				ds.SendErrAt, ds.SendErr, ds.SendErrT = i, err, e.Trace.Now()
				e.Mu.Unlock()
				return
			}
			ds.SendDone = append(ds.SendDone, e.Trace.Now())
			e.Mu.Unlock()
		}
	}()
}

// StartReceiver starts the receiver goroutine of direction d. It stops at
// the first Recv error.
func (e *Env) StartReceiver(d int) {
	_, rcv := e.conn(d)
	ds := e.Dir[d]
	e.appWG.Add(1)
	go func() {
		defer e.appWG.Done()
		defer func() {
			e.Mu.Lock()
			ds.ReceiverExited = true
			e.Mu.Unlock()
			e.notify()
		}()
		slow := e.Sc.SlowRecvC2S
		if d == 1 {
			slow = e.Sc.SlowRecvS2C
		}
		if slow != nil && slow.StartMs > 0 {
			time.Sleep(time.Duration(slow.StartMs) * time.Millisecond)
		}
		for k := 1; ; k++ {
			if slow != nil && slow.EveryN > 0 && slow.PauseMs > 0 && k > 1 && (k-1)%slow.EveryN == 0 {
				time.Sleep(time.Duration(slow.PauseMs) * time.Millisecond)
			}
			b, err := rcv.Recv()
			e.Mu.Lock()
			if err != nil {
				ds.RecvErr, ds.RecvErrT = err, e.Trace.Now()
				e.Mu.Unlock()
				return
			}
			ds.Recv = append(ds.Recv, b)
			ds.RecvAt = append(ds.RecvAt, e.Trace.Now())
			e.Mu.Unlock()
			e.notify()
		}
	}()
}

// StartTraffic starts senders and receivers on both directions.
func (e *Env) StartTraffic() {
	for d := 0; d < 2; d++ {
		if (d == 0 && e.Sc.NoRecvC2S) || (d == 1 && e.Sc.NoRecvS2C) {
			e.Mu.Lock()
			e.Dir[d].ReceiverExited = true // no Recv call is ever pending
			e.Mu.Unlock()
		} else {
			e.StartReceiver(d)
		}
		e.StartSender(d)
	}
}

// AllDelivered reports whether both receivers have as many messages as were
// offered.
func (e *Env) AllDelivered() bool {
	e.Mu.Lock()
	defer e.Mu.Unlock()
	return len(e.Dir[0].Recv) >= len(e.Dir[0].Offered) &&
		len(e.Dir[1].Recv) >= len(e.Dir[1].Offered)
}

// AnyFailure reports whether some app goroutine saw an error.
func (e *Env) AnyFailure() bool {
	e.Mu.Lock()
	defer e.Mu.Unlock()
	return e.Dir[0].SendErr != nil || e.Dir[1].SendErr != nil ||
		e.Dir[0].RecvErr != nil || e.Dir[1].RecvErr != nil
}

// WaitUntil waits until cond holds or d of virtual time has passed.
func (e *Env) WaitUntil(d time.Duration, cond func() bool) bool {
	deadline := time.NewTimer(d)
	defer deadline.Stop()
	for {
		if cond() {
			return true
		}
		select {
		case <-e.changed:
		case <-deadline.C:
			return cond()
		}
	}
}

// CloseBoth closes both endpoints (concurrently) and waits for the app
// goroutines to finish.
func (e *Env) CloseBoth() {
	var wg sync.WaitGroup
	for _, c := range []*gbn.GoBackNConn{e.Client, e.Server} {
		if c == nil {
			continue
		}
		wg.Add(1)
		go func(c *gbn.GoBackNConn) {
			defer wg.Done()
			_ = c.Close()
		}(c)
	}
	wg.Wait()
	e.CancelC()
	e.CancelS()
	e.appWG.Wait()
}

// WaitApp waits for all app goroutines.
func (e *Env) WaitApp() { e.appWG.Wait() }

// RunEvents interprets the scripted events (blocking; run in a goroutine).
func (e *Env) RunEvents(onClose func(who string, n int)) {
	start := time.Now()
	for _, ev := range e.Sc.Events {
		d := time.Duration(ev.AtMs)*time.Millisecond - time.Since(start)
		if d > 0 {
			time.Sleep(d)
		}
		switch ev.Kind {
		case "silence":
			e.C2S.SetSilent(true)
			e.S2C.SetSilent(true)
		case "unsilence":
			e.C2S.SetSilent(false)
			e.S2C.SetSilent(false)
		case "hold":
			if ev.Who == "c2s" || ev.Who == "both" {
				e.C2S.SetHold(true)
			}
			if ev.Who == "s2c" || ev.Who == "both" {
				e.S2C.SetHold(true)
			}
		case "unhold":
			e.C2S.SetHold(false)
			e.S2C.SetHold(false)
		case "cancel":
			if ev.Who == "client" || ev.Who == "both" {
				e.CancelC()
			}
			if ev.Who == "server" || ev.Who == "both" {
				e.CancelS()
			}
		case "close":
			if onClose != nil {
				onClose(ev.Who, ev.Arg)
			}
		}
	}
}

// PrefixViolation checks that got is a prefix of want (nil == empty).
func PrefixViolation(dir string, want, got [][]byte) string {
	if len(got) > len(want) {
		return fmt.Sprintf("%s: received %d messages but only %d were offered (extra message #%d, len %d)",
			dir, len(got), len(want), len(want), len(got[len(want)]))
	}
	for i := range got {
		if !bytes.Equal(got[i], want[i]) {
			return fmt.Sprintf("%s: message #%d differs: got len %d %s, want len %d %s", dir, i,
				len(got[i]), head(got[i]), len(want[i]), head(want[i]))
		}
	}
	return ""
}

func head(b []byte) string {
	if len(b) > 12 {
		return fmt.Sprintf("%x..", b[:12])
	}
	return fmt.Sprintf("%x", b)
}

var bubbleRe = regexp.MustCompile(`^goroutine \d+ \[[^\]]*synctest bubble (\d+)[^\]]*\]`)

// BubbleGoroutines lists the stacks of all other goroutines of the calling
// goroutine's bubble (empty outside a bubble).
func BubbleGoroutines() []string {
	self := make([]byte, 4096)
	self = self[:runtime.Stack(self, false)]
	m := bubbleRe.FindSubmatch(self)
	if m == nil {
		return nil
	}
	id := string(m[1])
	selfHdr := strings.SplitN(string(self), "\n", 2)[0]
	buf := make([]byte, 1<<20)
	for {
		n := runtime.Stack(buf, true)
		if n < len(buf) {
			buf = buf[:n]
			break
		}
		buf = make([]byte, 2*len(buf))
	}
	var out []string
	for _, g := range strings.Split(string(buf), "\n\n") {
		hdr := strings.SplitN(g, "\n", 2)[0]
		mm := bubbleRe.FindStringSubmatch(hdr)
		if mm == nil || mm[1] != id || hdr == selfHdr {
			continue
		}
		out = append(out, g)
	}
	return out
}

// RepoGoroutines filters stacks to those with a frame in the code under test.
func RepoGoroutines(stacks []string) []string {
	var out []string
	for _, s := range stacks {
		if strings.Contains(s, "lightning-node-connect/") {
			out = append(out, s)
		}
	}
	return out
}

// BubbleOutcome is how a bubble ended.
type BubbleOutcome struct {
	Panic    string // non-empty if the bubble panicked in the root goroutine / on exit
	Deadlock bool   // goroutines were still blocked when the root returned
}

// FreezeHook, if set, is given the goroutine dump when the watchdog fires,
// before the process exits with code 97. A check whose subject is "this call
// returns" uses it to tell a call of the code under test that never returns
// (other callers then wait on a mutex, which stops virtual time) from an
// engine limitation.
var FreezeHook func(stacks string)

// InBubble runs f in a synctest bubble and converts the panic synctest raises
// when goroutines are left behind (and any panic of f itself) into a value. A
// real-time watchdog aborts the process with exit code 97 if the bubble makes
// no progress (engine freeze, see DESIGN.md 3.2a).
func InBubble(t *testing.T, watchdog time.Duration, f func()) (out BubbleOutcome) {
	var stop chan struct{}
	if watchdog > 0 {
		stop = make(chan struct{})
		go func() {
			select {
			case <-stop:
			case <-time.After(watchdog):
				buf := make([]byte, 1<<20)
				n := runtime.Stack(buf, true)
				fmt.Fprintf(os.Stderr, "VERIF-ENGINE-FREEZE: bubble made no progress for %v\n%s\n", watchdog, buf[:n])
				if h := FreezeHook; h != nil {
					h(string(buf[:n]))
				}
				os.Exit(97)
			}
		}()
		defer close(stop)
	}
	defer func() {
		if r := recover(); r != nil {
			out.Panic = fmt.Sprint(r)
			if strings.Contains(out.Panic, "deadlock: main bubble goroutine has exited") {
				out.Deadlock = true
			}
		}
	}()
	synctest.Test(t, func(t *testing.T) { f() })
	return out
}
