// Package relay is an in-memory model of aperture's hashmail relay: named
// cipher-box streams with one reader and one writer each, message based,
// order preserving, with fault injection (per-message drop / delay, stream
// errors). It implements hashmailrpc.HashMailClient so that the mailbox
// package can be driven against it without a network. Works in real time and
// inside a testing/synctest bubble (it only blocks on channels and timers).
package relay

import (
	"context"
	"fmt"
	"io"
	"sync"
	"time"

	"github.com/lightninglabs/lightning-node-connect/hashmailrpc"
	"google.golang.org/grpc"
	"google.golang.org/grpc/codes"
	"google.golang.org/grpc/metadata"
	"google.golang.org/grpc/status"
)

// Decision is the fate of one relayed message.
type Decision struct {
	Kind    string `json:"k"` // deliver | drop | delay
	DelayMs int    `json:"ms,omitempty"`
}

// Event is one operation observed at the relay.
type Event struct {
	T      time.Duration `json:"t"`
	Op     string        `json:"op"` // new | del | send_open | recv_open | send | recv | send_err | recv_err
	Stream string        `json:"stream"`
	Who    string        `json:"who"`
	Len    int           `json:"len,omitempty"`
	Note   string        `json:"note,omitempty"`
	// Head is the first bytes of the message (hex), enough to tell the gbn
	// packet type and sequence number when a history has to be diagnosed.
	Head string `json:"head,omitempty"`
}

func head(b []byte) string {
	if len(b) > 4 {
		b = b[:4]
	}
	return fmt.Sprintf("%x", b)
}

type item struct {
	at  time.Time
	msg []byte
}

type stream struct {
	id        string
	q         []item
	lastAt    time.Time
	reader    *recvStream
	writer    *sendStream
	deleted   bool
	script    []Decision // per-message decisions, consumed in order while armed
	ord       int
	failSends int // fail the next n Send calls on this stream
	failRecvs int
}

// Relay is the shared relay state.
type Relay struct {
	mu        sync.Mutex
	start     time.Time
	streams   map[string]*stream
	wake      chan struct{}
	armed     bool
	down      bool // every operation fails (relay unreachable)
	blackhole bool // messages are accepted and dropped
	// failDeletes: number of DelCipherBox calls that still fail
	failDeletes int

	// Msgs is every CipherBox payload the relay ever saw, per stream id.
	Msgs   map[string][][]byte
	Events []Event
	// scripts to attach to streams when they are created, by stream id
	pending map[string][]Decision
	latency time.Duration
}

// New creates a relay with the given per-message latency.
func New(latency time.Duration) *Relay {
	return &Relay{
		start:   time.Now(),
		streams: make(map[string]*stream),
		wake:    make(chan struct{}),
		Msgs:    make(map[string][][]byte),
		pending: make(map[string][]Decision),
		latency: latency,
	}
}

func (r *Relay) signal() {
	close(r.wake)
	r.wake = make(chan struct{})
}

func (r *Relay) event(e Event) {
	e.T = time.Since(r.start)
	if len(r.Events) < 100000 {
		r.Events = append(r.Events, e)
	}
}

// SetScript installs the fault script of a stream id (before or after the
// stream exists). It is applied to messages sent while the relay is armed.
func (r *Relay) SetScript(id []byte, script []Decision) {
	r.mu.Lock()
	defer r.mu.Unlock()
	if s, ok := r.streams[string(id)]; ok {
		s.script, s.ord = script, 0
		return
	}
	r.pending[string(id)] = script
}

// Arm starts (or stops) applying the fault scripts.
func (r *Relay) Arm(v bool) {
	r.mu.Lock()
	defer r.mu.Unlock()
	r.armed = v
}

// FaultsLeft reports whether any armed script still has entries.
func (r *Relay) FaultsLeft() bool {
	r.mu.Lock()
	defer r.mu.Unlock()
	if !r.armed {
		return false
	}
	for _, s := range r.streams {
		if s.ord < len(s.script) {
			return true
		}
	}
	return false
}

// FailNext makes the next n Send (send=true) or Recv calls on the stream fail.
func (r *Relay) FailNext(id []byte, send bool, n int) {
	r.mu.Lock()
	defer r.mu.Unlock()
	s, ok := r.streams[string(id)]
	if !ok {
		return
	}
	if send {
		s.failSends += n
	} else {
		s.failRecvs += n
		r.signal()
	}
}

// Inject queues a message in the mailbox with the given stream id as if its
// writer had sent it (a damaged or foreign message delivered by the relay).
// It reports whether the mailbox exists.
func (r *Relay) Inject(id []byte, msg []byte) bool {
	r.mu.Lock()
	defer r.mu.Unlock()
	s, ok := r.streams[string(id)]
	if !ok || s.deleted {
		return false
	}
	at := time.Now().Add(r.latency)
	if at.Before(s.lastAt) {
		at = s.lastAt
	}
	s.lastAt = at
	s.q = append(s.q, item{at: at, msg: append([]byte(nil), msg...)})
	r.event(Event{Op: "inject", Stream: string(id), Len: len(msg), Head: head(msg)})
	r.signal()
	return true
}

// FailDeletes makes the next n DelCipherBox calls fail (transient error).
func (r *Relay) FailDeletes(n int) {
	r.mu.Lock()
	defer r.mu.Unlock()
	r.failDeletes += n
}

// SetBlackhole makes the relay accept and silently drop every message (true),
// or deliver again (false). Streams stay up: the endpoints see silence.
func (r *Relay) SetBlackhole(v bool) {
	r.mu.Lock()
	defer r.mu.Unlock()
	r.blackhole = v
}

// SetDown makes every relay operation fail (true) or work again (false).
func (r *Relay) SetDown(v bool) {
	r.mu.Lock()
	defer r.mu.Unlock()
	r.down = v
	r.signal()
}

// Restart models a relay process that is restarted: the hashmail server keeps
// its mailboxes in memory only, so every mailbox is forgotten together with
// the messages queued in it, and every open stream breaks.
func (r *Relay) Restart() {
	r.mu.Lock()
	defer r.mu.Unlock()
	for id, s := range r.streams {
		s.deleted = true
		if s.reader != nil {
			s.reader.closed = true
			s.reader = nil
		}
		if s.writer != nil {
			s.writer.closed = true
			s.writer = nil
		}
		delete(r.streams, id)
	}
	r.event(Event{Op: "restart", Stream: "--restart--"})
	r.signal()
}

// Snapshot returns copies of the recorded messages and events.
func (r *Relay) Snapshot() (map[string][][]byte, []Event) {
	r.mu.Lock()
	defer r.mu.Unlock()
	m := make(map[string][][]byte, len(r.Msgs))
	for k, v := range r.Msgs {
		m[k] = append([][]byte(nil), v...)
	}
	return m, append([]Event(nil), r.Events...)
}

// Client returns a HashMailClient handle for the named party.
func (r *Relay) Client(who string) hashmailrpc.HashMailClient {
	return &client{r: r, who: who}
}

type client struct {
	r   *Relay
	who string
}

var errDown = status.Error(codes.Unavailable, "relay unreachable")

func (c *client) NewCipherBox(ctx context.Context, in *hashmailrpc.CipherBoxAuth,
	_ ...grpc.CallOption) (*hashmailrpc.CipherInitResp, error) {

	r := c.r
	r.mu.Lock()
	defer r.mu.Unlock()
	if err := ctx.Err(); err != nil {
		return nil, status.FromContextError(err).Err()
	}
	if r.down {
		return nil, errDown
	}
	id := string(in.GetDesc().GetStreamId())
	if s, ok := r.streams[id]; ok && !s.deleted {
		return nil, status.Error(codes.AlreadyExists, "stream already active")
	}
	s := &stream{id: id}
	if sc, ok := r.pending[id]; ok {
		s.script = sc
	}
	r.streams[id] = s
	r.event(Event{Op: "new", Stream: id, Who: c.who})
	return &hashmailrpc.CipherInitResp{}, nil
}

func (c *client) DelCipherBox(ctx context.Context, in *hashmailrpc.CipherBoxAuth,
	_ ...grpc.CallOption) (*hashmailrpc.DelCipherBoxResp, error) {

	r := c.r
	r.mu.Lock()
	defer r.mu.Unlock()
	if r.down {
		return nil, errDown
	}
	if err := ctx.Err(); err != nil {
		// a gRPC call on a cancelled context fails before it is sent
		return nil, status.FromContextError(err).Err()
	}
	if r.failDeletes > 0 {
		r.failDeletes--
		r.event(Event{Op: "del_err", Stream: string(in.GetDesc().GetStreamId()), Who: c.who, Note: "injected"})
		return nil, errDown
	}
	id := string(in.GetDesc().GetStreamId())
	s, ok := r.streams[id]
	if !ok {
		// as the hashmail server does (TearDownStream: "stream not found")
		r.event(Event{Op: "del_err", Stream: id, Who: c.who, Note: "not found"})
		return nil, status.Error(codes.Unknown, "stream not found")
	}
	s.deleted = true
	delete(r.streams, id)
	r.signal()
	r.event(Event{Op: "del", Stream: id, Who: c.who})
	return &hashmailrpc.DelCipherBoxResp{}, nil
}

// ---------- send stream ----------

type sendStream struct {
	c      *client
	ctx    context.Context
	bound  *stream
	closed bool
}

func (c *client) SendStream(ctx context.Context, _ ...grpc.CallOption) (
	hashmailrpc.HashMail_SendStreamClient, error) {

	r := c.r
	r.mu.Lock()
	defer r.mu.Unlock()
	if err := ctx.Err(); err != nil {
		return nil, status.FromContextError(err).Err()
	}
	if r.down {
		return nil, errDown
	}
	ss := &sendStream{c: c, ctx: ctx}
	// release the writer slot when the context ends
	context.AfterFunc(ctx, func() {
		r.mu.Lock()
		defer r.mu.Unlock()
		ss.release()
	})
	return ss, nil
}

func (s *sendStream) release() {
	s.closed = true
	if s.bound != nil && s.bound.writer == s {
		s.bound.writer = nil
	}
}

func (s *sendStream) Send(box *hashmailrpc.CipherBox) error {
	r := s.c.r
	r.mu.Lock()
	defer r.mu.Unlock()
	id := string(box.GetDesc().GetStreamId())
	fail := func(err error, note string) error {
		r.event(Event{Op: "send_err", Stream: id, Who: s.c.who, Note: note})
		s.release()
		return err
	}
	if s.closed {
		return fail(status.Error(codes.Canceled, "send stream closed"), "closed")
	}
	if err := s.ctx.Err(); err != nil {
		return fail(status.FromContextError(err).Err(), "ctx")
	}
	if r.down {
		return fail(errDown, "down")
	}
	st, ok := r.streams[id]
	if !ok || st.deleted {
		return fail(status.Error(codes.NotFound, "stream not found"), "not found")
	}
	if st.writer != nil && st.writer != s {
		return fail(status.Error(codes.Unavailable, "stream occupied"), "occupied")
	}
	if st.writer == nil {
		st.writer = s
		s.bound = st
		r.event(Event{Op: "send_open", Stream: id, Who: s.c.who})
	}
	if st.failSends > 0 {
		st.failSends--
		return fail(status.Error(codes.Unavailable, "injected send failure"), "injected")
	}
	msg := append([]byte(nil), box.GetMsg()...)
	r.Msgs[id] = append(r.Msgs[id], msg)
	d := Decision{Kind: "deliver"}
	if r.armed && st.ord < len(st.script) {
		d = st.script[st.ord]
		st.ord++
	}
	if r.blackhole {
		d = Decision{Kind: "drop"}
	}
	note := ""
	switch d.Kind {
	case "drop":
		note = "drop"
	default:
		extra := time.Duration(0)
		if d.Kind == "delay" {
			extra = time.Duration(d.DelayMs) * time.Millisecond
			note = fmt.Sprintf("delay%dms", d.DelayMs)
		}
		at := time.Now().Add(r.latency + extra)
		if at.Before(st.lastAt) {
			at = st.lastAt
		}
		st.lastAt = at
		st.q = append(st.q, item{at: at, msg: msg})
	}
	r.event(Event{Op: "send", Stream: id, Who: s.c.who, Len: len(msg), Note: note, Head: head(msg)})
	r.signal()
	return nil
}

func (s *sendStream) CloseAndRecv() (*hashmailrpc.CipherBoxDesc, error) {
	_ = s.CloseSend()
	return &hashmailrpc.CipherBoxDesc{}, nil
}

func (s *sendStream) CloseSend() error {
	r := s.c.r
	r.mu.Lock()
	defer r.mu.Unlock()
	s.release()
	return nil
}

func (s *sendStream) Header() (metadata.MD, error) { return nil, nil }
func (s *sendStream) Trailer() metadata.MD         { return nil }
func (s *sendStream) Context() context.Context     { return s.ctx }
func (s *sendStream) SendMsg(m interface{}) error {
	if b, ok := m.(*hashmailrpc.CipherBox); ok {
		return s.Send(b)
	}
	return fmt.Errorf("unexpected message type %T", m)
}
func (s *sendStream) RecvMsg(m interface{}) error { return io.EOF }

// ---------- recv stream ----------

type recvStream struct {
	c      *client
	ctx    context.Context
	id     string
	bound  *stream
	closed bool
}

func (c *client) RecvStream(ctx context.Context, in *hashmailrpc.CipherBoxDesc,
	_ ...grpc.CallOption) (hashmailrpc.HashMail_RecvStreamClient, error) {

	r := c.r
	r.mu.Lock()
	defer r.mu.Unlock()
	if err := ctx.Err(); err != nil {
		return nil, status.FromContextError(err).Err()
	}
	if r.down {
		return nil, errDown
	}
	rs := &recvStream{c: c, ctx: ctx, id: string(in.GetStreamId())}
	context.AfterFunc(ctx, func() {
		r.mu.Lock()
		defer r.mu.Unlock()
		rs.release()
		r.signal()
	})
	return rs, nil
}

func (s *recvStream) release() {
	s.closed = true
	if s.bound != nil && s.bound.reader == s {
		s.bound.reader = nil
	}
}

func (s *recvStream) Recv() (*hashmailrpc.CipherBox, error) {
	r := s.c.r
	for {
		r.mu.Lock()
		fail := func(err error, note string) (*hashmailrpc.CipherBox, error) {
			r.event(Event{Op: "recv_err", Stream: s.id, Who: s.c.who, Note: note})
			s.release()
			r.mu.Unlock()
			return nil, err
		}
		if err := s.ctx.Err(); err != nil {
			return fail(status.FromContextError(err).Err(), "ctx")
		}
		if s.closed {
			return fail(status.Error(codes.Canceled, "recv stream closed"), "closed")
		}
		if r.down {
			return fail(errDown, "down")
		}
		st, ok := r.streams[s.id]
		if !ok || st.deleted {
			return fail(status.Error(codes.NotFound, "stream not found"), "not found")
		}
		if st.reader != nil && st.reader != s {
			return fail(status.Error(codes.Unavailable, "stream occupied"), "occupied")
		}
		if st.reader == nil {
			st.reader = s
			s.bound = st
			r.event(Event{Op: "recv_open", Stream: s.id, Who: s.c.who})
		}
		if st.failRecvs > 0 {
			st.failRecvs--
			return fail(status.Error(codes.Unavailable, "injected recv failure"), "injected")
		}
		now := time.Now()
		var wait time.Duration = -1
		if len(st.q) > 0 {
			if !st.q[0].at.After(now) {
				it := st.q[0]
				st.q = st.q[1:]
				r.event(Event{Op: "recv", Stream: s.id, Who: s.c.who, Len: len(it.msg), Head: head(it.msg)})
				r.mu.Unlock()
				return &hashmailrpc.CipherBox{
					Desc: &hashmailrpc.CipherBoxDesc{StreamId: []byte(s.id)},
					Msg:  it.msg,
				}, nil
			}
			wait = st.q[0].at.Sub(now)
		}
		w := r.wake
		r.mu.Unlock()
		if wait >= 0 {
			tm := time.NewTimer(wait)
			select {
			case <-s.ctx.Done():
			case <-tm.C:
			case <-w:
			}
			tm.Stop()
		} else {
			select {
			case <-s.ctx.Done():
			case <-w:
			}
		}
	}
}

func (s *recvStream) CloseSend() error             { return nil }
func (s *recvStream) Header() (metadata.MD, error) { return nil, nil }
func (s *recvStream) Trailer() metadata.MD         { return nil }
func (s *recvStream) Context() context.Context     { return s.ctx }
func (s *recvStream) SendMsg(m interface{}) error  { return nil }
func (s *recvStream) RecvMsg(m interface{}) error {
	b, err := s.Recv()
	if err != nil {
		return err
	}
	if out, ok := m.(*hashmailrpc.CipherBox); ok {
		out.Desc, out.Msg = b.Desc, b.Msg
	}
	return nil
}
