package gbnprop

import (
	"bytes"
	"context"
	"fmt"
	"strings"
	"sync"
	"testing"
	"time"

	"github.com/lightninglabs/lightning-node-connect/gbn"
	"pgregory.net/rapid"

	"verif/harness/stats"
	"verif/harness/vnet"
)

// TestC10Recovery: one client attempt against one server attempt (no retry
// loops, no stale packets, no duplicates, no delays) in which only handshake
// packets are LOST, in every order the three-way handshake allows: the SYN is
// lost, the SYN reply is lost, and finally the SYNACK is lost. Every one of
// these losses is repaired by the handshake itself (client: resend the SYN
// after the boosted handshake timeout; server: restart on timeout, echo a
// repeated SYN, and - after a restart - take the client's first DATA packet
// for the missing SYNACK). So on a transport whose round trip is far below
// every timeout, this very pair of attempts must reach the data phase with
// the client's N and carry data in both directions; nothing may fail.
//
// The lost-SYNACK path has one schedule in which the server legitimately
// gives up (DATA arriving while it still waits for the SYNACK is answered
// with io.EOF); the generator keeps the client's first DATA packet (or its
// first keepalive ping) behind the expiry of the server's boosted handshake
// timeout, which is when the "after a restart" rule applies.
type recCase struct {
	N      int             `json:"n"`
	Client vnet.TimeoutCfg `json:"client"`
	Server vnet.TimeoutCfg `json:"server"`
	LatMs  int             `json:"lat_ms"`
	// Rounds: losses before the handshake gets through, in order: "syn" (the
	// client's SYN is lost) or "reply" (the server's SYN reply is lost).
	Rounds     []string `json:"rounds,omitempty"`
	SynackLost bool     `json:"synack_lost"`
	// FirstDataMs: pause between NewClientConn returning and the client's
	// first Send.
	FirstDataMs int `json:"first_data_ms"`
	// PingFirst: the client's keepalive ping (not application data) is the
	// first DATA packet after the handshake.
	PingFirst bool `json:"ping_first,omitempty"`
	// StaleC2S / StaleS2C: packets of an earlier connection (never a SYN)
	// still queued towards the server / the client when the two start. Both
	// handshakes ignore anything but a SYN while they wait for one, and these
	// are in front of everything else, so they change nothing.
	StaleC2S []stalePkt `json:"stale_c2s,omitempty"`
	StaleS2C []stalePkt `json:"stale_s2c,omitempty"`
	C2S      int        `json:"c2s"` // messages client -> server (>= 1)
	S2C      int        `json:"s2c"` // messages server -> client
	MsgLen   int        `json:"msg_len"`
}

func genC10Recovery(t *rapid.T) *recCase {
	c := &recCase{}
	c.N = genN().Draw(t, "n")
	// distinct, mutually prime-ish handshake timeouts: no timer of one side
	// expires at the instant a packet provoked by the other side's timer
	// arrives
	c.Client.HandshakeMs = rapid.SampledFrom([]int{500, 1000, 2000}).Draw(t, "client_hs")
	c.Server.HandshakeMs = rapid.SampledFrom([]int{310, 730, 1570, 2930}).Draw(t, "server_hs")
	for _, x := range []*vnet.TimeoutCfg{&c.Client, &c.Server} {
		x.Static = rapid.Bool().Draw(t, "static")
		if x.Static {
			x.ResendMs = rapid.SampledFrom([]int{200, 1000}).Draw(t, "resend")
		}
		x.BoostPct = rapid.SampledFrom([]int{0, 50}).Draw(t, "boost")
	}
	c.LatMs = rapid.SampledFrom([]int{0, 1, 7, 40}).Draw(t, "lat")
	nr := rapid.SampledFrom([]int{0, 0, 1, 1, 2, 3}).Draw(t, "rounds")
	for i := 0; i < nr; i++ {
		c.Rounds = append(c.Rounds, rapid.SampledFrom([]string{"syn", "reply"}).Draw(t, "round"))
	}
	c.SynackLost = rapid.IntRange(0, 3).Draw(t, "synack_lost") != 0
	hs := c.Server.HandshakeMs
	if c.SynackLost {
		// boosted at most 1 + 0.5 * 3 times
		c.FirstDataMs = 3*hs + rapid.SampledFrom([]int{1, 50, 777, 5000}).Draw(t, "first_data")
		c.PingFirst = rapid.IntRange(0, 3).Draw(t, "ping_first") == 0
	} else {
		c.FirstDataMs = rapid.SampledFrom([]int{0, 0, 1, hs, 3 * hs}).Draw(t, "first_data")
	}
	if c.PingFirst {
		// the ping is swallowed by the server's handshake and repaired by
		// the resend timer: the pong timeout has to leave room for that
		rs := int(c.Client.InitialResend()/time.Millisecond) * 3
		c.Client.PingMs = c.FirstDataMs
		c.Client.PongMs = 6*rs + 4*c.LatMs + 1000
		c.FirstDataMs += rapid.SampledFrom([]int{1, 500, 3000}).Draw(t, "data_after_ping")
	}
	if rapid.IntRange(0, 2).Draw(t, "stale") == 0 {
		sg := rapid.Custom(func(t *rapid.T) stalePkt {
			return stalePkt{
				Type: rapid.SampledFrom([]string{"SYNACK", "DATA", "ACK", "NACK", "FIN"}).Draw(t, "type"),
				Val:  rapid.SampledFrom([]int{0, 1, c.N, 255}).Draw(t, "seq"),
			}
		})
		c.StaleC2S = rapid.SliceOfN(sg, 0, 4).Draw(t, "stale_c2s")
		c.StaleS2C = rapid.SliceOfN(sg, 0, 4).Draw(t, "stale_s2c")
	}
	c.C2S = rapid.SampledFrom([]int{1, 1, 2, c.N, c.N + 2}).Draw(t, "c2s")
	if c.C2S > 40 {
		c.C2S = 40
	}
	c.S2C = rapid.SampledFrom([]int{0, 1, 3}).Draw(t, "s2c")
	c.MsgLen = rapid.SampledFrom([]int{0, 1, 9, 300}).Draw(t, "len")
	return c
}

type recResult struct {
	violation string
	labels    []string
	tail      []string
}

func runC10Recovery(t *testing.T, c *recCase) (res recResult) {
	var tr *vnet.Trace
	out := vnet.InBubble(t, bubbleWatchdog, func() {
		tr = vnet.NewTrace(20000)
		// scripts by packet ordinal: c2s carries SYN... then the SYNACK
		var fc2s, fs2c []vnet.Decision
		for _, r := range c.Rounds {
			if r == "syn" {
				fc2s = append(fc2s, vnet.Decision{Kind: vnet.Drop})
			} else {
				fc2s = append(fc2s, vnet.Decision{Kind: vnet.Deliver})
				fs2c = append(fs2c, vnet.Decision{Kind: vnet.Drop})
			}
		}
		fc2s = append(fc2s, vnet.Decision{Kind: vnet.Deliver}) // the SYN that gets through
		if c.SynackLost {
			fc2s = append(fc2s, vnet.Decision{Kind: vnet.Drop})
		}
		c2s := vnet.NewLink("c2s", ms(c.LatMs), fc2s, tr)
		s2c := vnet.NewLink("s2c", ms(c.LatMs), fs2c, tr)
		for _, sp := range c.StaleC2S {
			c2s.Inject(sp.bytes())
		}
		for _, sp := range c.StaleS2C {
			s2c.Inject(sp.bytes())
		}
		c2s.Arm(time.Time{})
		s2c.Arm(time.Time{})

		ctx, cancel := context.WithCancel(context.Background())
		defer cancel()
		var (
			mu       sync.Mutex
			conns    [2]*gbn.GoBackNConn
			errs     [2]error
			returned [2]bool
			got      [2][][]byte // received by: 0 client, 1 server
			failures []string
			stopping bool
		)
		changed := make(chan struct{}, 1)
		note := func() {
			select {
			case changed <- struct{}{}:
			default:
			}
		}
		fail := func(format string, a ...any) {
			mu.Lock()
			if !stopping {
				failures = append(failures, fmt.Sprintf(format, a...))
			}
			mu.Unlock()
			note()
		}
		var wg sync.WaitGroup
		side := func(i int) {
			defer wg.Done()
			var (
				conn *gbn.GoBackNConn
				err  error
			)
			if i == 0 {
				conn, err = gbn.NewClientConn(ctx, uint8(c.N), c2s.Send, s2c.Recv, gbn.WithTimeoutOptions(c.Client.Options()...))
			} else {
				conn, err = gbn.NewServerConn(ctx, s2c.Send, c2s.Recv, gbn.WithTimeoutOptions(c.Server.Options()...))
			}
			mu.Lock()
			conns[i], errs[i], returned[i] = conn, err, true
			mu.Unlock()
			note()
			if err != nil || conn == nil || ctx.Err() != nil {
				if conn != nil {
					_ = conn.Close()
				}
				return
			}
			who := []string{"client", "server"}[i]
			wg.Add(1)
			go func() {
				defer wg.Done()
				for {
					b, rerr := conn.Recv()
					if rerr != nil {
						fail("%s: Recv failed at t=%.3fms: %v", who, float64(tr.Now())/1000, rerr)
						return
					}
					mu.Lock()
					got[i] = append(got[i], b)
					mu.Unlock()
					note()
				}
			}()
			count, dir := c.C2S, byte('c')
			if i == 0 {
				time.Sleep(ms(c.FirstDataMs))
			} else {
				count, dir = c.S2C, 's'
			}
			for k := 0; k < count; k++ {
				if serr := conn.Send(vnet.Payload(dir, k, c.MsgLen)); serr != nil {
					fail("%s: Send %d failed at t=%.3fms: %v", who, k, float64(tr.Now())/1000, serr)
					return
				}
			}
		}
		wg.Add(2)
		go side(0)
		go side(1)

		done := func() bool {
			mu.Lock()
			defer mu.Unlock()
			return len(failures) > 0 || (returned[0] && returned[1] && (errs[0] != nil || errs[1] != nil)) ||
				(len(got[1]) >= c.C2S && len(got[0]) >= c.S2C)
		}
		// Everything here is repaired within a few handshake / resend
		// timeouts of at most 3 s each; virtual time is free, so the limit is
		// far beyond any legitimate schedule.
		limit := time.Now().Add(600*time.Second + ms(c.FirstDataMs))
		for !done() && time.Now().Before(limit) {
			select {
			case <-changed:
			case <-time.After(time.Second):
			}
		}
		// a connection that came up must also stay up for a while
		if done() {
			mu.Lock()
			ok := len(failures) == 0 && errs[0] == nil && errs[1] == nil
			mu.Unlock()
			if ok && !c.Client.Keepalive() {
				time.Sleep(20 * time.Second)
			}
		}
		mu.Lock()
		switch {
		case !returned[0]:
			res.violation = "NewClientConn has not returned after 600 virtual seconds although only handshake packets were lost and the transport is reliable since"
		case errs[0] != nil || conns[0] == nil:
			res.violation = fmt.Sprintf("NewClientConn failed: %v (only handshake packets were lost; the handshake repairs that by itself)", errs[0])
		case !returned[1]:
			res.violation = "NewServerConn has not returned after 600 virtual seconds: the client is in the data phase and keeps sending, the server is still in its handshake (lost handshake packets only; after a restart the server completes on SYNACK or DATA)"
		case errs[1] != nil || conns[1] == nil:
			res.violation = fmt.Sprintf("NewServerConn failed: %v (only handshake packets were lost; the client's first DATA packet came after the server's handshake timeout)", errs[1])
		case len(failures) > 0:
			res.violation = "a call failed on a connection that had just been set up over a reliable transport: " + strings.Join(failures, "; ")
		}
		if res.violation == "" {
			w := conns[1].VerifWindow()
			if int(w.N) != c.N || int(w.S) != c.N+1 {
				res.violation = fmt.Sprintf("server entered the data phase with n=%d s=%d, the client proposed N=%d", w.N, w.S, c.N)
			}
		}
		if res.violation == "" {
			for i, want := range []int{c.S2C, c.C2S} {
				dir := byte('s')
				if i == 1 {
					dir = 'c'
				}
				if len(got[i]) != want {
					res.violation = fmt.Sprintf("%d of %d messages towards the %s delivered 600 virtual seconds after the handshake", len(got[i]), want, []string{"client", "server"}[i])
					break
				}
				for k, b := range got[i] {
					if !bytes.Equal(b, vnet.Payload(dir, k, c.MsgLen)) {
						res.violation = fmt.Sprintf("message %d towards the %s differs from what was sent", k, []string{"client", "server"}[i])
						break
					}
				}
			}
		}
		stopping = true
		cs := conns
		mu.Unlock()
		cancel()
		for _, cn := range cs {
			if cn != nil {
				_ = cn.Close()
			}
		}
		wg.Wait()
	})
	if out.Panic != "" && res.violation == "" && !out.Deadlock {
		res.violation = "panic in scenario root: " + out.Panic
	}
	if tr != nil && res.violation != "" {
		res.tail = tr.Tail(200)
	}
	for _, r := range c.Rounds {
		res.labels = append(res.labels, "lost_"+r)
	}
	if len(c.StaleC2S)+len(c.StaleS2C) > 0 {
		res.labels = append(res.labels, "stale_non_syn_prefix")
	}
	if c.SynackLost {
		res.labels = append(res.labels, "lost_synack")
		if c.PingFirst {
			res.labels = append(res.labels, "ping_completes_handshake")
		} else {
			res.labels = append(res.labels, "data_completes_handshake")
		}
	}
	return
}

func TestC10Recovery(t *testing.T) {
	const unit = "TestC10Recovery"
	rec := stats.New(t, "C10", unit)
	var rc recCase
	if stats.ReplayCase(unit, &rc) {
		for i := 0; i < 5; i++ {
			if r := runC10Recovery(t, &rc); r.violation != "" {
				rec.Violation(r.violation, "recovery", rc)
				t.Fatalf("%s\n%s", r.violation, strings.Join(r.tail, "\n"))
			}
		}
		return
	}
	if stats.ReplayMode() {
		t.Skip()
	}
	rapid.Check(t, func(rt *rapid.T) {
		c := genC10Recovery(rt)
		rec.Current("recovery", c)
		r := runC10Recovery(t, c)
		nontrivial := len(c.Rounds) > 0 || c.SynackLost || len(c.StaleC2S)+len(c.StaleS2C) > 0
		rec.Case(nontrivial, fmt.Sprintf("%+v", *c), r.labels...)
		if nontrivial && rec.WantSample() {
			rec.Sample(c)
		}
		if r.violation != "" {
			rec.Pending(r.violation, "recovery", struct {
				*recCase
				TraceTail []string `json:"trace_tail"`
			}{c, r.tail})
			rt.Fatalf("%s", r.violation)
		}
	})
	rec.Done()
}
