package gbnprop

import (
	"context"
	"fmt"
	"os"
	"strings"
	"sync"
	"testing"
	"time"

	"github.com/lightninglabs/lightning-node-connect/gbn"
	"pgregory.net/rapid"

	"verif/harness/stats"
	"verif/harness/vnet"
)

// stalePkt is a packet of an earlier connection still queued in the transport.
type stalePkt struct {
	Type string `json:"type"` // SYN SYNACK DATA ACK NACK FIN
	Val  int    `json:"val"`  // N for SYN, seq otherwise
}

func (p stalePkt) bytes() []byte {
	var m gbn.Message
	switch p.Type {
	case "SYN":
		m = &gbn.PacketSYN{N: uint8(p.Val)}
	case "SYNACK":
		m = &gbn.PacketSYNACK{}
	case "DATA":
		m = &gbn.PacketData{Seq: uint8(p.Val), FinalChunk: true, Payload: []byte("stale")}
	case "ACK":
		m = &gbn.PacketACK{Seq: uint8(p.Val)}
	case "NACK":
		m = &gbn.PacketNACK{Seq: uint8(p.Val)}
	default:
		m = &gbn.PacketFIN{}
	}
	b, _ := m.Serialize()
	return b
}

type hsCase struct {
	N           int             `json:"n"`
	Client      vnet.TimeoutCfg `json:"client"`
	Server      vnet.TimeoutCfg `json:"server"`
	LatC2SMs    int             `json:"lat_c2s_ms"`
	LatS2CMs    int             `json:"lat_s2c_ms"`
	FaultsC2S   []vnet.Decision `json:"faults_c2s,omitempty"`
	FaultsS2C   []vnet.Decision `json:"faults_s2c,omitempty"`
	StaleC2S    []stalePkt      `json:"stale_c2s,omitempty"` // queued towards the server
	StaleS2C    []stalePkt      `json:"stale_s2c,omitempty"` // queued towards the client
	ClientStart int             `json:"client_start_ms"`
	ServerStart int             `json:"server_start_ms"`
	RetryMs     int             `json:"retry_ms"`
}

func genC10(t *rapid.T) *hsCase {
	c := &hsCase{}
	c.N = genN().Draw(t, "n")
	mk := func(label string) vnet.TimeoutCfg {
		var x vnet.TimeoutCfg
		x.Static = rapid.Bool().Draw(t, label+"_static")
		if x.Static {
			x.ResendMs = rapid.SampledFrom([]int{100, 1000}).Draw(t, label+"_resend")
		}
		x.HandshakeMs = rapid.SampledFrom([]int{0, 100, 500, 2000}).Draw(t, label+"_hs")
		x.BoostPct = rapid.SampledFrom([]int{0, 50}).Draw(t, label+"_boost")
		// Keepalive is always on, as in the mailbox: the retry loops this
		// property relies on need some way to notice a dead attempt (a
		// client that completed on a stale SYN reply while the server still
		// waits for a SYN can only be resolved by the client timing out).
		pp := rapid.SampledFrom([][2]int{{5000, 3000}, {7000, 3000}, {1000, 500}, {300, 100}}).Draw(t, label+"_pp")
		x.PingMs, x.PongMs = pp[0], pp[1]
		return x
	}
	c.Client, c.Server = mk("client"), mk("server")
	hsMin := int(c.Client.InitialHandshake() / time.Millisecond)
	if h := int(c.Server.InitialHandshake() / time.Millisecond); h < hsMin {
		hsMin = h
	}
	// a live peer answers within the pong timeout: round trip below it
	// ... and strictly below the handshake timeout: at RTT == timeout the
	// reply and the timer fire at the same instant (a genuine tie), and
	// with RTT above it every attempt retransmits its SYN, gets two
	// replies and is killed by the second one, whatever the faults do.
	latMax := (hsMin - 1) / 2
	for _, x := range []vnet.TimeoutCfg{c.Client, c.Server} {
		if l := (x.PongMs - 1) / 2; l < latMax {
			latMax = l
		}
	}
	c.LatC2SMs = rapid.SampledFrom([]int{0, 0, 1, latMax / 2, latMax}).Draw(t, "lat_c2s")
	c.LatS2CMs = rapid.SampledFrom([]int{0, 0, 1, latMax / 2, latMax}).Draw(t, "lat_s2c")
	delays := []int{0, 1, hsMin / 2, hsMin - 1, hsMin, hsMin + 1, 2 * hsMin, 3 * hsMin}
	c.FaultsC2S = genScript(t, "f_c2s", 12, delays)
	c.FaultsS2C = genScript(t, "f_s2c", 12, delays)
	staleGen := rapid.Custom(func(t *rapid.T) stalePkt {
		typ := rapid.SampledFrom([]string{"SYN", "SYN", "SYNACK", "DATA", "ACK", "NACK", "FIN"}).Draw(t, "type")
		var v int
		if typ == "SYN" {
			v = rapid.SampledFrom([]int{c.N, c.N, 20, 1, 254, 255, 0}).Draw(t, "n")
		} else {
			v = rapid.SampledFrom([]int{0, 1, c.N, 255}).Draw(t, "seq")
		}
		return stalePkt{Type: typ, Val: v}
	})
	if rapid.Bool().Draw(t, "stale") {
		c.StaleC2S = rapid.SliceOfN(staleGen, 0, 5).Draw(t, "stale_c2s")
		c.StaleS2C = rapid.SliceOfN(staleGen, 0, 5).Draw(t, "stale_s2c")
	}
	c.ClientStart = rapid.SampledFrom([]int{0, 0, 1, hsMin, 3 * hsMin}).Draw(t, "client_start")
	c.ServerStart = rapid.SampledFrom([]int{0, 0, 1, hsMin, 3 * hsMin}).Draw(t, "server_start")
	c.RetryMs = rapid.SampledFrom([]int{0, 100, 1000}).Draw(t, "retry_ms")
	return c
}

// death records why a data-phase attempt ended.
type death struct {
	at      time.Time
	client  bool
	entered int64
	died    int64
	byHsPkt bool // a SYN/SYNACK was handed to it while in the data phase
	byFin   bool
}

type c10Result struct {
	violation  string
	labels     []string
	tail       []string
	nontrivial bool
	zeroSpace  bool // server adopted N=255 (sequence space 0)
	// foreignSynack: the client sent SYNACK right after a SYN reply whose N
	// was not its own.
	foreignSynack bool
	// staleSynLoop: the run did not converge and every data-phase connection
	// that died after the faults had ceased was killed by a handshake packet
	// (SYN/SYNACK) received in the data phase, or by the FIN of a peer that
	// died that way.
	staleSynLoop bool
	// crossAttempt: the run did not converge although both sides sat in the
	// data phase, and a DATA/ACK/NACK packet of another attempt was handed to
	// one of the two live attempts (or a DATA packet of the live peer attempt
	// was swallowed by the handshake of the other).
	crossAttempt bool
	// fullWindow: the run did not converge and a live attempt sits on a full
	// send window at the verdict (it can neither ping nor notice that its
	// peer is gone: the dead-peer-full-window finding of C13/C06).
	fullWindow bool
	// staleN: data flowed between the client and a server attempt whose n was
	// taken from an injected stale SYN carrying another N.
	staleN bool
}

func runC10(t *testing.T, c *hsCase) (res c10Result) {
	var tr *vnet.Trace
	out := vnet.InBubble(t, bubbleWatchdog, func() {
		tr = vnet.NewTrace(100000)
		c2s := vnet.NewLink("c2s", ms(c.LatC2SMs), c.FaultsC2S, tr)
		s2c := vnet.NewLink("s2c", ms(c.LatS2CMs), c.FaultsS2C, tr)
		// SYN values handed to the server so far (observer).
		var (
			mu        sync.Mutex
			synSeen   = map[int]bool{}
			viol      string
			converged bool
			// latest live attempt numbers and what they have received
			cliAttempt, srvAttempt = -1, -1
			cliGotFrom, srvGotFrom = map[int]int{}, map[int]int{} // attempt -> peer attempt received from
			attempts               = [2]int{}
			errsSeen               []string
			deaths                 []death
			liveSince              = [2]int64{-1, -1} // entry time (trace us) of the live attempt: client, server
			liveConn               [2]*gbn.GoBackNConn
		)
		type synAt struct {
			t int64
			n int
		}
		var synLog []synAt // every SYN handed to the server side, in order (under the trace mutex)
		tr.Observers = append(tr.Observers, func(e vnet.TraceEvent) {
			if e.Ev == "recv" && e.Dir == "c2s" && e.Type == "SYN" {
				synSeen[e.Seq] = true // under the trace mutex
				synLog = append(synLog, synAt{e.T, e.Seq})
			}
		})
		for _, p := range c.StaleC2S {
			c2s.Inject(p.bytes())
		}
		for _, p := range c.StaleS2C {
			s2c.Inject(p.bytes())
		}
		c2s.Arm(time.Time{})
		s2c.Arm(time.Time{})

		ctx, cancel := context.WithCancel(context.Background())
		changed := make(chan struct{}, 1)
		note := func() {
			select {
			case changed <- struct{}{}:
			default:
			}
		}
		var wg sync.WaitGroup
		side := func(isClient bool) {
			defer wg.Done()
			start := c.ServerStart
			if isClient {
				start = c.ClientStart
			}
			time.Sleep(ms(start))
			for attempt := 0; ctx.Err() == nil; attempt++ {
				var (
					conn *gbn.GoBackNConn
					err  error
				)
				cctx, ccancel := context.WithCancel(ctx)
				attemptStart := tr.Now()
				if isClient {
					o := []gbn.Option{gbn.WithTimeoutOptions(c.Client.Options()...)}
					conn, err = gbn.NewClientConn(cctx, uint8(c.N), c2s.Send, s2c.Recv, o...)
				} else {
					o := []gbn.Option{gbn.WithTimeoutOptions(c.Server.Options()...)}
					conn, err = gbn.NewServerConn(cctx, s2c.Send, c2s.Recv, o...)
				}
				mu.Lock()
				attempts[map[bool]int{true: 0, false: 1}[isClient]]++
				mu.Unlock()
				if err != nil || conn == nil {
					mu.Lock()
					if len(errsSeen) < 20 {
						errsSeen = append(errsSeen, fmt.Sprintf("%v attempt %d: %v", isClient, attempt, err))
					}
					mu.Unlock()
					ccancel()
					if ctx.Err() != nil {
						return
					}
					time.Sleep(ms(c.RetryMs))
					continue
				}
				if ctx.Err() != nil {
					_ = conn.Close()
					ccancel()
					return
				}
				// data phase entered
				enteredAt := tr.Now()
				mu.Lock()
				liveSince[map[bool]int{true: 0, false: 1}[isClient]] = enteredAt
				liveConn[map[bool]int{true: 0, false: 1}[isClient]] = conn
				mu.Unlock()
				w := conn.VerifWindow()
				mu.Lock()
				if isClient {
					cliAttempt = attempt
					if int(w.N) != c.N || int(w.S) != c.N+1 {
						viol = fmt.Sprintf("client attempt %d entered the data phase with n=%d s=%d, it proposed N=%d", attempt, w.N, w.S, c.N)
					}
				} else {
					srvAttempt = attempt
					tr.Mu().Lock()
					seen := synSeen[int(w.N)]
					// the last SYN handed to this attempt; a SYN handed over at
					// this very instant may already belong to the data phase
					// (the receive loop runs concurrently with this check), so
					// the one before it is acceptable too
					lastSyn, prevSyn := -1, -1
					nowUs := tr.Now()
					for _, sa := range synLog {
						if sa.t >= attemptStart {
							prevSyn, lastSyn = lastSyn, sa.n
							if sa.t < nowUs {
								prevSyn = -1
							}
						}
					}
					tr.Mu().Unlock()
					switch {
					case w.N == 255 || w.S == 0:
						viol = fmt.Sprintf("server attempt %d entered the data phase with n=%d (sequence space s=%d): the protocol cannot represent a window of 255", attempt, w.N, w.S)
						res.zeroSpace = true
					case !seen:
						viol = fmt.Sprintf("server attempt %d entered the data phase with n=%d, but no SYN carrying that value was ever delivered to it", attempt, w.N)
					case int(w.S) != int(w.N)+1:
						viol = fmt.Sprintf("server attempt %d: n=%d but s=%d", attempt, w.N, w.S)
					case lastSyn >= 0 && int(w.N) != lastSyn && int(w.N) != prevSyn:
						// the server echoes every SYN it gets; the window it
						// commits to must be the one it echoed last (the only
						// one the client can have accepted)
						viol = fmt.Sprintf("server attempt %d entered the data phase with n=%d although the last SYN handed to it (and echoed) carried N=%d", attempt, w.N, lastSyn)
					}
				}
				bad := viol != ""
				mu.Unlock()
				note()
				if bad {
					// do not drive traffic over a connection whose window
					// is already known to be invalid (N=255 divides by zero)
					_ = conn.Close()
					ccancel()
					cancel()
					return
				}
				// exchange: send our attempt number, receive the peer's
				tag := byte('s')
				if isClient {
					tag = 'c'
				}
				// The server announces itself at once; the client answers
				// after it has heard from the server (so that its window
				// stays free for keepalive pings, see the known finding on
				// full windows).
				sendDone := make(chan struct{})
				var sendOnce sync.Once
				doSend := func() {
					sendOnce.Do(func() {
						go func() {
							defer close(sendDone)
							// "data flows": keep offering small messages; a
							// stale ACK of an earlier connection may
							// legitimately eat the first one (that is not
							// this property's subject).
							for k := 0; k < 50 && cctx.Err() == nil; k++ {
								if conn.Send([]byte{tag, byte(attempt)}) != nil {
									return
								}
								select {
								case <-cctx.Done():
									return
								case <-time.After(500 * time.Millisecond):
								}
							}
						}()
					})
				}
				if !isClient {
					doSend()
				}
				for {
					b, rerr := conn.Recv()
					if rerr != nil {
						break
					}
					doSend()
					if len(b) == 2 && b[0] != tag {
						mu.Lock()
						if isClient {
							cliGotFrom[attempt] = int(b[1])
						} else {
							srvGotFrom[attempt] = int(b[1])
							// data flows between this server attempt and a
							// client: windows must agree
							if int(w.N) != c.N && viol == "" {
								viol = fmt.Sprintf("data flows between the client (N=%d) and server attempt %d which uses n=%d", c.N, attempt, w.N)
								for _, p := range c.StaleC2S {
									if p.Type == "SYN" && p.Val == int(w.N) {
										res.staleN = true
									}
								}
							}
						}
						mu.Unlock()
						note()
					}
				}
				// classify the death from the trace
				{
					in := "s2c"
					if !isClient {
						in = "c2s"
					}
					d := death{at: time.Now()}
					teUs, tcUs := enteredAt, tr.Now()
					d.client, d.entered, d.died = isClient, teUs, tcUs
					for _, e := range tr.Snapshot() {
						if e.Ev != "recv" || e.Dir != in || e.T < teUs || e.T > tcUs {
							continue
						}
						switch e.Type {
						case "SYN", "SYNACK":
							d.byHsPkt = true
						case "FIN":
							d.byFin = true
						}
					}
					mu.Lock()
					deaths = append(deaths, d)
					mu.Unlock()
				}
				_ = conn.Close()
				sendOnce.Do(func() { close(sendDone) })
				<-sendDone
				ccancel()
				mu.Lock()
				liveSince[map[bool]int{true: 0, false: 1}[isClient]] = -1
				liveConn[map[bool]int{true: 0, false: 1}[isClient]] = nil
				if isClient && cliAttempt == attempt {
					cliAttempt = -1
				}
				if !isClient && srvAttempt == attempt {
					srvAttempt = -1
				}
				mu.Unlock()
				if ctx.Err() != nil {
					return
				}
				time.Sleep(ms(c.RetryMs))
			}
		}
		wg.Add(2)
		go side(true)
		go side(false)

		isConverged := func() bool {
			mu.Lock()
			defer mu.Unlock()
			if viol != "" {
				return true
			}
			if cliAttempt < 0 || srvAttempt < 0 {
				return false
			}
			sa, ok1 := cliGotFrom[cliAttempt]
			ca, ok2 := srvGotFrom[srvAttempt]
			return ok1 && ok2 && sa == srvAttempt && ca == cliAttempt
		}
		// Progress bound: faults are over once both scripts are exhausted
		// (the retry loops keep producing packets, so they are consumed) and
		// every delayed packet has been delivered.
		hsMax := maxDur(c.Client.InitialHandshake(), c.Server.InitialHandshake())
		// the handshake booster adds 50%/100% of the original per resent SYN;
		// an attempt lives at most a few resends after faults end
		// a server that missed the SYNACK completes on the client's next
		// DATA (re)transmission, which is governed by the resend timeout
		// and its 3x sync wait
		rsMax := maxDur(c.Client.InitialResend(), c.Server.InitialResend())
		ppMax := maxDur(ms(c.Client.PingMs+c.Client.PongMs), ms(c.Server.PingMs+c.Server.PongMs))
		unit := 4*hsMax + 4*rsMax + ppMax + ms(c.RetryMs) + ms(c.LatC2SMs+c.LatS2CMs) + ms(maxInt(c.ClientStart, c.ServerStart))
		hardDeadline := time.Now().Add(3600 * time.Second)
		var faultEnd time.Time
		for time.Now().Before(hardDeadline) {
			if isConverged() {
				converged = true
				break
			}
			if faultEnd.IsZero() && !c2s.FaultsActive() && !s2c.FaultsActive() {
				// every delayed packet is due at most maxDelay after the
				// last fault was applied
				f1, _ := c2s.LastFault()
				f2, _ := s2c.LastFault()
				end := f1
				if f2.After(end) {
					end = f2
				}
				end = end.Add(ms(maxDelayMs(c.FaultsC2S, c.FaultsS2C)))
				if !end.After(time.Now()) {
					faultEnd = time.Now()
				}
			}
			if !faultEnd.IsZero() && time.Since(faultEnd) > 10*unit {
				break
			}
			select {
			case <-changed:
			case <-time.After(unit / 4):
			}
		}
		mu.Lock()
		res.violation = viol
		if res.violation == "" && !converged {
			res.violation = fmt.Sprintf("no pair of attempts reached the data phase and exchanged a message in both directions within %v (10 x (4*handshake+4*resend+ping+pong+retry+rtt+start offset)) after the faults ceased; client attempts %d, server attempts %d; errors: %s",
				10*unit, attempts[0], attempts[1], strings.Join(errsSeen, " | "))
		}
		if viol == "" && !converged && !faultEnd.IsZero() {
			n, all := 0, true
			feUs := tr.Now() - time.Since(faultEnd).Microseconds()
			for _, d := range deaths {
				// connections that entered the data phase while faults were
				// still being applied may die of those faults (a dropped
				// keepalive answer); the loop is about the ones set up on
				// the reliable transport afterwards
				if d.at.Before(faultEnd) || d.entered < feUs {
					continue
				}
				n++
				if !d.byHsPkt && !d.byFin {
					all = false
					if debugTrace {
						fmt.Printf("DBG death not by SYN/FIN: client=%v entered=%dus died=%dus\n", d.client, d.entered, d.died)
					}
				}
			}
			res.staleSynLoop = n >= 3 && all
		}
		if viol == "" && !converged {
			// the recorded stale-SYN-other-N mechanism, also when no data got
			// through: the live server attempt runs with the N of a stale
			// SYN that was queued towards it, not with the client's
			if lc := liveConn[1]; lc != nil {
				if w := lc.VerifWindow(); int(w.N) != c.N {
					for _, p := range c.StaleC2S {
						if p.Type == "SYN" && p.Val == int(w.N) {
							res.staleN = true
						}
					}
				}
			}
			for i, lc := range liveConn {
				if lc != nil {
					if w := lc.VerifWindow(); w.Size >= w.N {
						// ... and its peer is really gone: nothing was handed
						// to it during the second half of the waiting period
						// (with a peer that still answers, a full window is
						// something else than the recorded dead-peer finding)
						in := map[int]string{0: "s2c", 1: "c2s"}[i]
						quietSince := tr.Now() - (5 * unit).Microseconds()
						heard := false
						for _, e := range tr.Snapshot() {
							if e.Ev == "recv" && e.Dir == in && e.T >= quietSince {
								heard = true
							}
						}
						if !heard {
							res.fullWindow = true
						}
					}
				}
			}
		}
		if viol == "" && !converged && liveSince[0] >= 0 && liveSince[1] >= 0 {
			// both sides sit in the data phase; look for packets that crossed
			// attempt boundaries
			for _, e := range tr.Snapshot() {
				if e.Ev != "recv" || (e.Type != "DATA" && e.Type != "ACK" && e.Type != "NACK") {
					continue
				}
				rcv, snd := 1, 0 // c2s: received by the server, sent by the client
				if e.Dir == "s2c" {
					rcv, snd = 0, 1
				}
				if e.T >= liveSince[rcv] && e.SentT < liveSince[snd] {
					res.crossAttempt = true // sent by an earlier attempt of the peer
				}
				if e.SentT >= liveSince[snd] && e.T < liveSince[rcv] && e.Type == "DATA" {
					res.crossAttempt = true // swallowed by the receiver's handshake
				}
			}
		}
		if attempts[0] > 1 || attempts[1] > 1 {
			res.labels = append(res.labels, "retried")
		}
		mu.Unlock()
		cancel()
		wg.Wait()
	})
	if out.Panic != "" && res.violation == "" && !out.Deadlock {
		res.violation = "panic in scenario root: " + out.Panic
	}
	faulted := false
	if tr != nil {
		lastSynToClient, foreign := -1, false
		for _, e := range tr.Snapshot() {
			if e.Ev == "send" && e.Dec != "" && (e.Type == "SYN" || e.Type == "SYNACK") {
				faulted = true
			}
			// The client confirms (SYNACK) only a SYN reply that carries the
			// window it proposed: the SYNACK carries no N, so confirming any
			// other reply leaves the two ends with different windows.
			if e.Dir == "s2c" && e.Ev == "recv" && e.Type == "SYN" {
				lastSynToClient = e.Seq
				if e.Seq != c.N {
					foreign = true
				}
			}
			if e.Dir == "c2s" && e.Ev == "send" && e.Type == "SYNACK" && lastSynToClient != c.N && !res.foreignSynack {
				res.foreignSynack = true
				msg := fmt.Sprintf("the client (N=%d) confirmed with SYNACK at t=%.3fms a SYN reply that carried N=%d: the server of that reply uses a window the client did not propose",
					c.N, float64(e.T)/1000, lastSynToClient)
				// this outranks a recorded finding that happens to match the
				// consequences
				res.violation, res.staleN, res.crossAttempt, res.staleSynLoop, res.fullWindow = msg, false, false, false, false
			}
		}
		if foreign {
			res.labels = append(res.labels, "syn_reply_with_other_n_reached_client")
		}
		if res.violation != "" {
			res.tail = tr.Tail(400)
			if debugTrace {
				_ = os.WriteFile(os.TempDir()+"/c10trace.txt", []byte(strings.Join(tr.Tail(1000000), "\n")), 0o644)
			}
		}
	}
	if faulted {
		res.labels = append(res.labels, "handshake_packet_faulted")
	}
	if len(c.StaleC2S)+len(c.StaleS2C) > 0 {
		res.labels = append(res.labels, "stale_prefix")
	}
	res.nontrivial = faulted || len(c.StaleC2S)+len(c.StaleS2C) > 0
	return
}

func maxDelayMs(scripts ...[]vnet.Decision) int {
	m := 0
	for _, sc := range scripts {
		for _, d := range sc {
			if d.Kind == vnet.Delay && d.DelayMs > m {
				m = d.DelayMs
			}
		}
	}
	return m
}

func maxInt(a, b int) int {
	if a > b {
		return a
	}
	return b
}

// c10Known returns the id of the recorded finding whose mechanism explains the
// violation, or "".
func c10Known(rec *stats.Recorder, r *c10Result) string {
	switch {
	case r.staleN && rec.IsKnown("gbn-stale-syn-other-n"):
		return "gbn-stale-syn-other-n"
	case r.fullWindow && rec.IsKnown("gbn-dead-peer-full-window-c10"):
		return "gbn-dead-peer-full-window-c10"
	case r.crossAttempt && rec.IsKnown("gbn-cross-attempt-desync"):
		return "gbn-cross-attempt-desync"
	case r.staleSynLoop && rec.IsKnown("gbn-stale-syn-reconnect-loop"):
		return "gbn-stale-syn-reconnect-loop"
	}
	return ""
}

func TestC10Handshake(t *testing.T) {
	const unit = "TestC10Handshake"
	rec := stats.New(t, "C10", unit)
	var rc hsCase
	if stats.ReplayCase(unit, &rc) {
		for i := 0; i < 10; i++ {
			if r := runC10(t, &rc); r.violation != "" {
				if id := c10Known(rec, &r); id != "" {
					t.Logf("replay run %d matches the recorded finding %s: %s", i, id, r.violation)
					rec.KnownHit(id)
					continue
				}
				rec.Violation(r.violation, "handshake", rc)
				t.Fatalf("%s\n%s", r.violation, strings.Join(r.tail, "\n"))
			}
		}
		return
	}
	if stats.ReplayMode() {
		t.Skip()
	}
	rapid.Check(t, func(rt *rapid.T) {
		c := genC10(rt)
		rec.Current("handshake", c)
		r := runC10(t, c)
		rec.Case(r.nontrivial, fmt.Sprintf("%+v", *c), r.labels...)
		if r.nontrivial && rec.WantSample() {
			rec.Sample(c)
		}
		if r.violation != "" {
			if id := c10Known(rec, &r); id != "" {
				rec.KnownHit(id)
				return
			}
			rec.Pending(r.violation, "handshake", struct {
				*hsCase
				TraceTail []string `json:"trace_tail"`
			}{c, r.tail})
			rt.Fatalf("%s", r.violation)
		}
	})
	rec.Done()
}
