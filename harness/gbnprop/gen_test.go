package gbnprop

import (
	"encoding/json"
	"fmt"
	"os"
	"strings"
	"testing"
	"time"

	"pgregory.net/rapid"

	"verif/harness/stats"
	"verif/harness/vnet"
)

// ---------- generators shared by the gbn properties ----------

func genN() *rapid.Generator[int] {
	return rapid.OneOf(
		rapid.SampledFrom([]int{1, 1, 2, 2, 3, 4, 5, 20, 20, 127, 254}),
		rapid.IntRange(1, 254),
	)
}

// genTimeout draws a timeout configuration. keepalive: 0 never, 1 maybe, 2 always.
func genTimeout(keepalive int) *rapid.Generator[vnet.TimeoutCfg] {
	return rapid.Custom(func(t *rapid.T) vnet.TimeoutCfg {
		var c vnet.TimeoutCfg
		c.Static = rapid.IntRange(0, 3).Draw(t, "static") != 0
		if c.Static {
			c.ResendMs = rapid.SampledFrom([]int{20, 50, 100, 250, 500, 1000, 2000}).Draw(t, "resend_ms")
		} else {
			c.Mult = rapid.SampledFrom([]int{0, 1, 2, 5, 10}).Draw(t, "mult")
			c.Freq = rapid.SampledFrom([]int{0, 1, 2, 10, 200}).Draw(t, "freq")
		}
		c.HandshakeMs = rapid.SampledFrom([]int{0, 50, 200, 1000, 2000}).Draw(t, "hs_ms")
		c.BoostPct = rapid.SampledFrom([]int{0, 10, 50, 100}).Draw(t, "boost")
		ka := keepalive == 2 || (keepalive == 1 && rapid.IntRange(0, 3).Draw(t, "ka") == 0)
		if ka {
			c.PingMs = rapid.SampledFrom([]int{100, 500, 1500, 5000, 7000}).Draw(t, "ping_ms")
			c.PongMs = rapid.SampledFrom([]int{50, 300, 1000, 3000}).Draw(t, "pong_ms")
		}
		return c
	})
}

// faultProfile is a per-case mix of fault probabilities (in 1/100).
type faultProfile struct{ drop, dup, delay int }

func genDecision(p faultProfile, delays []int) *rapid.Generator[vnet.Decision] {
	return rapid.Custom(func(t *rapid.T) vnet.Decision {
		x := rapid.IntRange(0, 99).Draw(t, "x")
		switch {
		case x < p.drop:
			return vnet.Decision{Kind: vnet.Drop}
		case x < p.drop+p.dup:
			return vnet.Decision{Kind: vnet.Dup, Copies: rapid.IntRange(1, 3).Draw(t, "copies")}
		case x < p.drop+p.dup+p.delay:
			return vnet.Decision{Kind: vnet.Delay, DelayMs: rapid.SampledFrom(delays).Draw(t, "delay")}
		}
		return vnet.Decision{Kind: vnet.Deliver}
	})
}

// genScript draws a fault script of up to maxLen decisions.
func genScript(t *rapid.T, label string, maxLen int, delays []int) []vnet.Decision {
	p := faultProfile{
		drop:  rapid.SampledFrom([]int{0, 5, 10, 20, 40, 60}).Draw(t, label+"_drop"),
		dup:   rapid.SampledFrom([]int{0, 0, 5, 20}).Draw(t, label+"_dup"),
		delay: rapid.SampledFrom([]int{0, 0, 5, 20}).Draw(t, label+"_delay"),
	}
	if p.drop+p.dup+p.delay == 0 {
		return nil
	}
	return rapid.SliceOfN(genDecision(p, delays), 0, maxLen).Draw(t, label)
}

func genMsgs(t *rapid.T, label string, maxCount, maxLen int, gaps []int) []vnet.Msg {
	n := rapid.IntRange(0, maxCount).Draw(t, label+"_count")
	msgs := make([]vnet.Msg, n)
	lenGen := rapid.OneOf(rapid.IntRange(0, 8), rapid.IntRange(0, maxLen))
	gapGen := rapid.SampledFrom(gaps)
	for i := range msgs {
		msgs[i].Len = lenGen.Draw(t, label+"_len")
		msgs[i].GapMs = gapGen.Draw(t, label+"_gap")
	}
	return msgs
}

// drawSlowReaders gives the scenario, in one of four cases, a receiving
// application that stays out of Recv for a while (base = the unit of the
// pauses, usually the larger resend timeout) on one or both directions.
func drawSlowReaders(t *rapid.T, sc *vnet.Scenario, base int) {
	if rapid.IntRange(0, 3).Draw(t, "slow_reader") != 0 {
		return
	}
	mk := func(label string) *vnet.SlowRecv {
		return &vnet.SlowRecv{
			StartMs: rapid.SampledFrom([]int{0, base / 2, 2 * base, 5 * base}).Draw(t, label+"_start"),
			EveryN:  rapid.SampledFrom([]int{1, 2, sc.N, sc.N + 1, 3 * sc.N}).Draw(t, label+"_every"),
			PauseMs: rapid.SampledFrom([]int{0, 1, base, 3 * base}).Draw(t, label+"_pause"),
		}
	}
	switch rapid.IntRange(0, 2).Draw(t, "slow_dir") {
	case 0:
		sc.SlowRecvC2S = mk("slow_c2s")
	case 1:
		sc.SlowRecvS2C = mk("slow_s2c")
	default:
		sc.SlowRecvC2S, sc.SlowRecvS2C = mk("slow_c2s"), mk("slow_s2c")
	}
}

// ---------- trace analysis ----------

type dirTrace struct {
	newData, resentData, acks, nacks, pings, fins int
	faultedData, faultedCtl                       int
	maxNewBeforeAck                               int
}

type traceInfo struct {
	dir        map[string]*dirTrace
	wrapped    bool
	retransmit bool
	nack       bool
	faultHit   bool
}

// analyse classifies a packet trace. s is the sequence space size.
func analyse(ev []vnet.TraceEvent, s int) traceInfo {
	ti := traceInfo{dir: map[string]*dirTrace{"c2s": {}, "s2c": {}}}
	next := map[string]int{"c2s": 0, "s2c": 0}
	for _, e := range ev {
		if e.Ev != "send" {
			continue
		}
		d := ti.dir[e.Dir]
		switch e.Type {
		case "DATA":
			if e.Seq == next[e.Dir] {
				d.newData++
				next[e.Dir] = (next[e.Dir] + 1) % s
			} else {
				d.resentData++
			}
			if strings.Contains(e.Fl, "P") {
				d.pings++
			}
			if e.Dec != "" {
				d.faultedData++
			}
		case "ACK":
			d.acks++
			if e.Dec != "" {
				d.faultedCtl++
			}
		case "NACK":
			d.nacks++
			if e.Dec != "" {
				d.faultedCtl++
			}
		case "FIN":
			d.fins++
		}
	}
	for _, d := range ti.dir {
		if d.newData > s {
			ti.wrapped = true
		}
		if d.resentData > 0 {
			ti.retransmit = true
		}
		if d.nacks > 0 {
			ti.nack = true
		}
		if d.faultedData+d.faultedCtl > 0 {
			ti.faultHit = true
		}
	}
	return ti
}

// ---------- common plumbing ----------

// scenarioReplay runs fn on the scenario stored in a replay file, up to
// `times` times, and reports the first violation.
func scenarioReplay(t *testing.T, rec *stats.Recorder, unit string, times int,
	fn func(sc *vnet.Scenario) (string, []string)) bool {

	var sc vnet.Scenario
	if !stats.ReplayCase(unit, &sc) {
		if stats.ReplayMode() {
			t.Skip("replay file is for another unit")
		}
		return false
	}
	for i := 0; i < times; i++ {
		v, tail := fn(&sc)
		if debugTrace && i == 0 {
			t.Logf("trace tail:\n%s", strings.Join(tail, "\n"))
		}
		if v != "" {
			rec.Violation(v, "scenario", withTrace(&sc, tail))
			t.Fatalf("replay run %d: %s\n%s", i, v, strings.Join(tail, "\n"))
		}
	}
	t.Logf("replayed %d times without violation", times)
	return true
}

type scenarioWithTrace struct {
	*vnet.Scenario
	TraceTail []string `json:"trace_tail,omitempty"`
}

func withTrace(sc *vnet.Scenario, tail []string) any {
	return scenarioWithTrace{Scenario: sc, TraceTail: tail}
}

func scKey(sc *vnet.Scenario) []byte {
	b, _ := json.Marshal(sc)
	return b
}

var debugTrace = os.Getenv("VERIF_DEBUG") != ""

const bubbleWatchdog = 120 * time.Second

// mutexDeadlockHook turns an engine freeze into a violation when the goroutine
// dump explains it: goroutines of the code under test are waiting for a mutex
// (a lock-order deadlock, or a lock held across a wait that never ends). A
// mutex wait is not a durable block for the virtual clock, so such a state
// stops time instead of being reported by synctest; on the unchanged tree no
// gbn scenario freezes. why says what the state means for the property.
func mutexDeadlockHook(rec *stats.Recorder, kind string, c any, why string) func(string) {
	return func(stacks string) {
		var blocked []string
		for _, g := range strings.Split(stacks, "\n\n") {
			if !strings.Contains(g, "lightning-node-connect/gbn.") {
				continue
			}
			if strings.Contains(g, "sync.(*Mutex).Lock") || strings.Contains(g, "sync.(*RWMutex).Lock") ||
				strings.Contains(g, "sync.(*RWMutex).RLock") {
				blocked = append(blocked, g)
			}
		}
		if len(blocked) > 0 {
			if len(blocked) > 4 {
				blocked = blocked[:4]
			}
			rec.FatalViolation(fmt.Sprintf("%s: %d goroutine(s) of the connection waited for a mutex until the watchdog fired (virtual time could not advance):\n%s",
				why, len(blocked), strings.Join(blocked, "\n\n")), kind, c)
		}
	}
}

func ms(d int) time.Duration { return time.Duration(d) * time.Millisecond }

func errStr(err error) string {
	if err == nil {
		return ""
	}
	return err.Error()
}

var _ = fmt.Sprintf
