package gbnprop

import (
	"context"
	"errors"
	"fmt"
	"sync/atomic"
	"testing"
	"time"

	"github.com/lightninglabs/lightning-node-connect/gbn"
	"pgregory.net/rapid"

	"verif/harness/stats"
	"verif/harness/vnet"
)

// startFail: the transport fails (or the context is cancelled) at the very
// moment the handshake completes, so that one of the connection's own
// goroutines exits and closes the connection while start() is still launching
// the other one. Close / Send / Recv from the application race with that.
type startFail struct {
	Victim   string `json:"victim"`    // client | server
	FailAt   int    `json:"fail_at"`   // the victim's recv call (1-based, counted from the constructor) that fails
	SendFail int    `json:"send_fail"` // the victim's send call that fails (0 = never)
	AppOp    string `json:"app_op"`    // close | send | recv | none: what the application does right after the constructor returns
	Keep     bool   `json:"keepalive"`
	Iters    int    `json:"iters"`
}

var errInjected = errors.New("injected transport failure")

func runC18StartFail(t *testing.T, c *startFail) (violation string) {
	out := vnet.InBubble(t, bubbleWatchdog, func() {
		for it := 0; it < c.Iters; it++ {
			c2s := make(chan []byte, 256)
			s2c := make(chan []byte, 256)
			mk := func(ch chan []byte, failAt int) (func(context.Context, []byte) error, *atomic.Int64) {
				var n atomic.Int64
				return func(ctx context.Context, b []byte) error {
					if k := n.Add(1); failAt > 0 && int(k) >= failAt {
						return errInjected
					}
					select {
					case ch <- append([]byte(nil), b...):
						return nil
					case <-ctx.Done():
						return ctx.Err()
					}
				}, &n
			}
			mkRecv := func(ch chan []byte, failAt int) func(context.Context) ([]byte, error) {
				var n atomic.Int64
				return func(ctx context.Context) ([]byte, error) {
					if k := n.Add(1); failAt > 0 && int(k) >= failAt {
						return nil, errInjected
					}
					select {
					case b := <-ch:
						return b, nil
					case <-ctx.Done():
						return nil, ctx.Err()
					}
				}
			}
			cFailR, sFailR, cFailS, sFailS := 0, 0, 0, 0
			if c.Victim == "client" {
				cFailR, cFailS = c.FailAt, c.SendFail
			} else {
				sFailR, sFailS = c.FailAt, c.SendFail
			}
			cSend, _ := mk(c2s, cFailS)
			sSend, _ := mk(s2c, sFailS)
			cRecv := mkRecv(s2c, cFailR)
			sRecv := mkRecv(c2s, sFailR)
			topts := []gbn.TimeoutOptions{
				gbn.WithStaticResendTimeout(200 * time.Millisecond),
				gbn.WithHandshakeTimeout(200 * time.Millisecond),
			}
			if c.Keep {
				topts = append(topts, gbn.WithKeepalivePing(300*time.Millisecond, 200*time.Millisecond))
			}
			opts := []gbn.Option{gbn.WithTimeoutOptions(topts...)}
			ctxC, cancelC := context.WithCancel(context.Background())
			ctxS, cancelS := context.WithCancel(context.Background())
			type res struct {
				c   *gbn.GoBackNConn
				err error
			}
			app := func(g *gbn.GoBackNConn) {
				switch c.AppOp {
				case "close":
					_ = g.Close()
				case "send":
					_ = g.Send([]byte("x"))
				case "recv":
					g.SetRecvTimeout(50 * time.Millisecond)
					_, _ = g.Recv()
				}
			}
			sc := make(chan res, 1)
			cc := make(chan res, 1)
			go func() {
				g, err := gbn.NewServerConn(ctxS, sSend, sRecv, opts...)
				if err == nil && c.Victim == "server" {
					app(g)
				}
				sc <- res{g, err}
			}()
			go func() {
				g, err := gbn.NewClientConn(ctxC, 3, cSend, cRecv, opts...)
				if err == nil && c.Victim == "client" {
					app(g)
				}
				cc <- res{g, err}
			}()
			var rs, rc res
			timeout := time.After(5 * time.Second)
			for got := 0; got < 2; {
				select {
				case rs = <-sc:
					got++
				case rc = <-cc:
					got++
				case <-timeout:
					// a constructor that cannot finish its handshake because
					// the victim failed early: cancel it
					cancelC()
					cancelS()
					timeout = nil
				}
			}
			closed := make(chan struct{})
			go func() {
				for _, g := range []*gbn.GoBackNConn{rs.c, rc.c} {
					if g != nil {
						_ = g.Close()
					}
				}
				close(closed)
			}()
			select {
			case <-closed:
			case <-time.After(60 * time.Second):
				violation = fmt.Sprintf("iteration %d: Close did not return within 60s of virtual time after a transport failure at start", it)
				cancelC()
				cancelS()
				return
			}
			cancelC()
			cancelS()
			time.Sleep(time.Second)
			if left := vnet.RepoGoroutines(vnet.BubbleGoroutines()); len(left) > 0 {
				violation = fmt.Sprintf("iteration %d: goroutines of the connection still running 1s after Close returned: %v", it, left)
				return
			}
		}
	})
	if out.Panic != "" && violation == "" {
		violation = "panic / leaked goroutines: " + out.Panic
	}
	return
}

// TestC18StartFailure: the connection's own goroutines fail while start() is
// still launching them. Runs with the race detector; a WaitGroup misuse is a
// fatal error of the process, which the driver attributes to this unit.
func TestC18StartFailure(t *testing.T) {
	const unit = "TestC18StartFailure"
	rec := stats.New(t, "C18", unit)
	var rc startFail
	if stats.ReplayCase(unit, &rc) {
		for i := 0; i < 20; i++ {
			if v := runC18StartFail(t, &rc); v != "" {
				rec.Violation(v, "start_fail", rc)
				t.Fatal(v)
			}
		}
		return
	}
	if stats.ReplayMode() {
		t.Skip()
	}
	rapid.Check(t, func(rt *rapid.T) {
		c := &startFail{
			Victim:   rapid.SampledFrom([]string{"client", "server"}).Draw(rt, "victim"),
			AppOp:    rapid.SampledFrom([]string{"none", "close", "send", "recv"}).Draw(rt, "app"),
			Keep:     rapid.Bool().Draw(rt, "keepalive"),
			Iters:    50,
			SendFail: rapid.SampledFrom([]int{0, 0, 1, 2, 3}).Draw(rt, "send_fail"),
		}
		// the client's handshake takes one recv, the server's two: fail on
		// the first data-phase call most of the time
		first := 2
		if c.Victim == "server" {
			first = 3
		}
		c.FailAt = rapid.SampledFrom([]int{first, first, first, first + 1, first - 1, 0}).Draw(rt, "fail_at")
		rec.Current("start_fail", c)
		v := runC18StartFail(t, c)
		lab := "fail_at_start"
		if c.FailAt != first {
			lab = "fail_elsewhere"
		}
		rec.CaseN(int64(c.Iters), int64(c.Iters), fmt.Sprintf("%+v", *c), lab, "app_"+c.AppOp)
		if rec.WantSample() {
			rec.Sample(c)
		}
		if v != "" {
			rec.Pending(v, "start_fail", c)
			rt.Fatalf("%s", v)
		}
	})
	rec.Done()
}
