package gbnprop

import (
	"context"
	"fmt"
	"runtime"
	"strings"
	"sync"
	"testing"
	"testing/synctest"
	"time"

	"github.com/lightninglabs/lightning-node-connect/gbn"
	"pgregory.net/rapid"

	"verif/harness/stats"
	"verif/harness/vnet"
)

// closeCase: a running conversation plus close actions.
type closeCase struct {
	Sc *vnet.Scenario `json:"scenario"`
	// Closes: each entry is one Close call.
	Closes []closeCall `json:"closes"`
	// Transport at the moment of the first close: "ok", "silent"
	Transport string `json:"transport"`
	SilenceMs int    `json:"silence_ms"` // when the transport goes silent (if Transport == silent)
}

type closeCall struct {
	Who  string `json:"who"`   // client | server
	AtMs int    `json:"at_ms"` // virtual ms after the data phase started
}

const (
	finSendTimeout = time.Second
	closeSlack     = 50 * time.Millisecond
)

func genC12(t *rapid.T) *closeCase {
	c := &closeCase{}
	sc := &vnet.Scenario{}
	sc.N = rapid.SampledFrom([]int{1, 2, 3, 20, 254}).Draw(t, "n")
	sc.Client = genTimeout(1).Draw(t, "client_to")
	sc.Server = genTimeout(1).Draw(t, "server_to")
	lat := rapid.SampledFrom([]int{0, 0, 1, 20, 200}).Draw(t, "lat")
	sc.LatC2SMs, sc.LatS2CMs = lat, lat
	sc.MaxChunk = rapid.SampledFrom([]int{0, 0, 3}).Draw(t, "chunk")
	// traffic that keeps Send blocked (more than N back-to-back) and
	// receivers waiting
	sc.C2S = genMsgs(t, "c2s", 40, 32, []int{0, 0, 0, 5, 300})
	sc.S2C = genMsgs(t, "s2c", 40, 32, []int{0, 0, 0, 5, 300})
	delays := []int{0, 1, 100, 1000}
	sc.FaultsC2S = genScript(t, "f_c2s", 60, delays)
	sc.FaultsS2C = genScript(t, "f_s2c", 60, delays)
	// an application that never reads: the receive buffer of that endpoint
	// fills up with up to N packets and its receive loop waits to hand over
	// the next one
	switch rapid.IntRange(0, 5).Draw(t, "norecv") {
	case 0:
		sc.NoRecvC2S = true
	case 1:
		sc.NoRecvS2C = true
	case 2:
		sc.NoRecvC2S, sc.NoRecvS2C = true, true
	}
	c.Sc = sc
	c.Transport = rapid.SampledFrom([]string{"ok", "ok", "silent"}).Draw(t, "transport")
	at := rapid.SampledFrom([]int{0, 0, 1, 5, 20, 99, 100, 101, 300, 999, 1000, 1001, 2500, 7000}).Draw(t, "close_at")
	if c.Transport == "silent" {
		c.SilenceMs = at - rapid.SampledFrom([]int{0, 1, 500, 3000}).Draw(t, "silence_before")
		if c.SilenceMs < 0 {
			c.SilenceMs = 0
		}
	}
	n := rapid.IntRange(1, 5).Draw(t, "ncalls")
	for i := 0; i < n; i++ {
		c.Closes = append(c.Closes, closeCall{
			Who:  rapid.SampledFrom([]string{"client", "server"}).Draw(t, "who"),
			AtMs: at + rapid.SampledFrom([]int{0, 0, 0, 1, lat, 2 * lat, 500, 1500}).Draw(t, "offset"),
		})
	}
	return c
}

type c12Result struct {
	violation  string
	labels     []string
	tail       []string
	nontrivial bool
}

func runC12(t *testing.T, c *closeCase) (res c12Result) {
	sc := c.Sc
	var env *vnet.Env
	out := vnet.InBubble(t, bubbleWatchdog, func() {
		env = vnet.NewEnv(sc)
		env.StartHandshake()
		if !env.WaitHandshake(600 * time.Second) {
			res.labels = append(res.labels, "handshake_incomplete")
			env.CloseBoth()
			return
		}
		env.ArmFaults()
		env.StartTraffic()
		start := time.Now()

		var (
			mu        sync.Mutex
			closeDur  []time.Duration
			hung      []string
			firstAt   = map[string]time.Time{}
			closeDone = map[string]time.Time{}
			wg        sync.WaitGroup
		)
		if c.Transport == "silent" {
			wg.Add(1)
			go func() {
				defer wg.Done()
				time.Sleep(ms(c.SilenceMs))
				env.C2S.SetSilent(true)
				env.S2C.SetSilent(true)
			}()
		}
		// state at the moment of the first close, for classification
		firstClose := c.Closes[0].AtMs
		for _, cc := range c.Closes {
			if cc.AtMs < firstClose {
				firstClose = cc.AtMs
			}
		}
		wg.Add(1)
		go func() {
			defer wg.Done()
			time.Sleep(ms(firstClose))
			env.Mu.Lock()
			for d := 0; d < 2; d++ {
				ds := env.Dir[d]
				if len(ds.SendStart) > len(ds.SendDone) && ds.SendErr == nil {
					res.labels = append(res.labels, "send_blocked_at_close")
					res.nontrivial = true
				}
			}
			env.Mu.Unlock()
			if env.Client.VerifWindow().Size > 0 || env.Server.VerifWindow().Size > 0 {
				res.labels = append(res.labels, "unacked_data_at_close")
				res.nontrivial = true
			}
		}()
		for _, cc := range c.Closes {
			cc := cc
			wg.Add(1)
			go func() {
				defer wg.Done()
				time.Sleep(ms(cc.AtMs) - time.Since(start))
				conn := env.Client
				if cc.Who == "server" {
					conn = env.Server
				}
				t0 := time.Now()
				mu.Lock()
				if _, ok := firstAt[cc.Who]; !ok {
					firstAt[cc.Who] = t0
				}
				mu.Unlock()
				returned := make(chan struct{})
				go func() {
					_ = conn.Close()
					close(returned)
				}()
				select {
				case <-returned:
				case <-time.After(10 * time.Minute):
					mu.Lock()
					hung = append(hung, cc.Who)
					mu.Unlock()
					return
				}
				mu.Lock()
				closeDur = append(closeDur, time.Since(t0))
				closeDone[cc.Who] = time.Now()
				mu.Unlock()
			}()
		}
		wg.Wait()
		if len(hung) > 0 {
			res.violation = fmt.Sprintf("Close called on the %s did not return within 10 minutes of virtual time", strings.Join(hung, " and the "))
			// release whatever can still be released and stop here
			env.CancelC()
			env.CancelS()
			return
		}
		mu.Lock()
		for _, d := range closeDur {
			if d > finSendTimeout+closeSlack {
				res.violation = fmt.Sprintf("a Close call took %v of virtual time (bound: FIN send timeout 1s + %v)", d, closeSlack)
			}
		}
		if len(c.Closes) > 1 {
			res.labels = append(res.labels, "multiple_close_calls")
			res.nontrivial = true
		}
		mu.Unlock()

		// Blocked and later calls of a closed endpoint fail.
		type ep struct {
			name string
			c    *gbn.GoBackNConn
			recv int
			send int
		}
		eps := []ep{{"client", env.Client, 1, 0}, {"server", env.Server, 0, 1}}
		checkClosed := func(e ep, why string) {
			if res.violation != "" {
				return
			}
			env.Mu.Lock()
			rexit := env.Dir[e.recv].ReceiverExited
			ds := env.Dir[e.send]
			// the sender goroutine may be pausing between messages; only a
			// Send call that has started and not returned is "blocked"
			sexit := !(len(ds.SendStart) > len(ds.SendDone) && ds.SendErr == nil)
			env.Mu.Unlock()
			if !rexit {
				res.violation = fmt.Sprintf("%s: Recv still blocked %s", e.name, why)
				return
			}
			if !sexit {
				res.violation = fmt.Sprintf("%s: Send still blocked %s", e.name, why)
				return
			}
			for _, call := range []string{"Send", "Recv"} {
				call := call
				errc := make(chan error, 1)
				t0 := time.Now()
				go func() {
					if call == "Send" {
						errc <- e.c.Send([]byte("late"))
					} else {
						_, err := e.c.Recv()
						errc <- err
					}
				}()
				select {
				case err := <-errc:
					if err == nil {
						res.violation = fmt.Sprintf("%s: %s succeeded %s", e.name, call, why)
					} else if el := time.Since(t0); el > closeSlack {
						res.violation = fmt.Sprintf("%s: later %s took %v to fail %s", e.name, call, el, why)
					}
				case <-time.After(time.Second):
					res.violation = fmt.Sprintf("%s: later %s blocks %s", e.name, call, why)
				}
			}
		}
		// let app goroutines observe the closure
		synctest.Wait()
		closedBy := map[string]bool{}
		for _, cc := range c.Closes {
			closedBy[cc.Who] = true
		}
		for _, e := range eps {
			if closedBy[e.name] {
				checkClosed(e, "after its Close returned")
			}
		}
		// Every Close puts a FIN on the transport unless the peer's FIN came
		// first ("the peer is told by a FIN when the transport still works"):
		// the links accept every packet handed to them (what they then do to
		// it is the script's business and recorded in the trace), so the
		// closer's FIN - sent by this Close or by an earlier one of the
		// connection's own loops - must be in the trace.
		if res.violation == "" {
			finSent, finGot := map[string]bool{}, map[string]bool{}
			for _, e := range env.Trace.Snapshot() {
				if e.Type != "FIN" {
					continue
				}
				sender := map[string]string{"c2s": "client", "s2c": "server"}[e.Dir]
				rcpt := map[string]string{"c2s": "server", "s2c": "client"}[e.Dir]
				if e.Ev == "send" {
					finSent[sender] = true
				}
				if e.Ev == "recv" {
					finGot[rcpt] = true
				}
			}
			for _, e := range eps {
				if closedBy[e.name] && !finSent[e.name] && !finGot[e.name] {
					res.violation = fmt.Sprintf("%s: Close returned without a FIN having been handed to the transport (and the peer had not sent one): the peer is not told", e.name)
				}
			}
		}
		// The peer is told by a FIN when the transport works: its calls fail
		// within one latency (+slack) of the Close. Only asserted when the
		// link was reliable (no scripted fault left, not silent) at that time.
		// Asserted exactly when the trace shows that the FIN was handed to
		// the peer's recvFunc (a dropped or still queued FIN tells nobody).
		if res.violation == "" {
			time.Sleep(ms(sc.LatC2SMs+sc.LatS2CMs) + closeSlack)
			synctest.Wait()
			finHanded := map[string]bool{}
			for _, e := range env.Trace.Snapshot() {
				if e.Ev == "recv" && e.Type == "FIN" && env.Trace.Now()-e.T >= closeSlack.Microseconds() {
					// FIN on c2s was sent by the client and handed to the server
					finHanded[map[string]string{"c2s": "server", "s2c": "client"}[e.Dir]] = true
				}
			}
			for _, e := range eps {
				if !closedBy[e.name] && finHanded[e.name] {
					res.labels = append(res.labels, "peer_told_by_fin_checked")
					checkClosed(e, "although the peer's FIN was handed to its receive function (working transport)")
				}
			}
		}
		env.CloseBoth()

		// Leak check: everything is closed; after a long virtual time no
		// goroutine with a frame in the code under test may remain.
		time.Sleep(10 * time.Minute)
		synctest.Wait()
		if leaked := vnet.RepoGoroutines(vnet.BubbleGoroutines()); len(leaked) > 0 && res.violation == "" {
			res.violation = fmt.Sprintf("%d goroutine(s) of the connection still running 10 virtual minutes after Close:\n%s",
				len(leaked), strings.Join(leaked, "\n\n"))
		}
	})
	if out.Panic != "" && res.violation == "" {
		if out.Deadlock {
			res.violation = "goroutines left blocked after Close (synctest): " + out.Panic
		} else {
			res.violation = "panic in scenario root: " + out.Panic
		}
	}
	if env != nil && res.violation != "" {
		res.tail = env.Trace.Tail(60)
	}
	if c.Transport == "silent" {
		res.labels = append(res.labels, "transport_silent")
	}
	if sc.NoRecvC2S || sc.NoRecvS2C {
		res.labels = append(res.labels, "application_never_reads")
	}
	return
}

// closeHangHook turns an engine freeze into a violation when the goroutine
// dump shows why virtual time stopped: a Close call of the code under test is
// waiting for the connection's goroutines (which never end), and further Close
// callers wait on the sync.Once mutex behind it, which is not a durable block
// for the virtual clock.
func closeHangHook(rec *stats.Recorder, kind string, c any) func(string) {
	return func(stacks string) {
		for _, g := range strings.Split(stacks, "\n\n") {
			if strings.Contains(g, "gbn.(*GoBackNConn).Close") && strings.Contains(g, "sync.(*WaitGroup).Wait") {
				rec.FatalViolation("Close never returned: a Close call stayed in wg.Wait for the connection's goroutines until the watchdog fired (virtual time could not advance because other Close callers wait behind it):\n"+g,
					kind, c)
			}
		}
	}
}

func TestC12Close(t *testing.T) {
	const unit = "TestC12Close"
	rec := stats.New(t, "C12", unit)
	var rc closeCase
	if stats.ReplayCase(unit, &rc) {
		for i := 0; i < 10; i++ {
			if r := runC12(t, &rc); r.violation != "" {
				rec.Violation(r.violation, "close", rc)
				t.Fatalf("%s\n%s", r.violation, strings.Join(r.tail, "\n"))
			}
		}
		return
	}
	if stats.ReplayMode() {
		t.Skip()
	}
	defer func() { vnet.FreezeHook = nil }()
	rapid.Check(t, func(rt *rapid.T) {
		c := genC12(rt)
		rec.Current("close", c)
		closeHook, lockHook := closeHangHook(rec, "close", c), mutexDeadlockHook(rec, "close", c, "Close cannot complete")
		vnet.FreezeHook = func(st string) { closeHook(st); lockHook(st) }
		r := runC12(t, c)
		rec.Case(r.nontrivial, fmt.Sprintf("%s|%+v|%s|%d", scKey(c.Sc), c.Closes, c.Transport, c.SilenceMs), r.labels...)
		if r.nontrivial && rec.WantSample() {
			rec.Sample(c)
		}
		if r.violation != "" {
			rec.Pending(r.violation, "close", struct {
				*closeCase
				TraceTail []string `json:"trace_tail"`
			}{c, r.tail})
			rt.Fatalf("%s", r.violation)
		}
	})
	rec.Done()
}

// ---------- cancellation during the handshake ----------

type hsCancelCase struct {
	Role     string `json:"role"` // client | server
	CancelMs int    `json:"cancel_ms"`
	PeerUp   bool   `json:"peer_up"` // a peer exists but every packet to it is dropped
	HsMs     int    `json:"hs_ms"`
}

func runC12Cancel(t *testing.T, c hsCancelCase) (violation string) {
	out := vnet.InBubble(t, bubbleWatchdog, func() {
		tr := vnet.NewTrace(10000)
		out := vnet.NewLink("out", 0, nil, tr)
		in := vnet.NewLink("in", 0, nil, tr)
		out.SetSilent(true)
		ctx, cancel := context.WithCancel(context.Background())
		opts := []gbn.Option{gbn.WithTimeoutOptions(gbn.WithHandshakeTimeout(ms(c.HsMs)))}
		type result struct {
			conn *gbn.GoBackNConn
			err  error
		}
		resc := make(chan result, 1)
		go func() {
			var r result
			if c.Role == "client" {
				r.conn, r.err = gbn.NewClientConn(ctx, 20, out.Send, in.Recv, opts...)
			} else {
				r.conn, r.err = gbn.NewServerConn(ctx, out.Send, in.Recv, opts...)
			}
			resc <- r
		}()
		if c.PeerUp && c.Role == "server" {
			// a SYN arrives, our reply is dropped, the client never SYNACKs
			b, _ := (&gbn.PacketSYN{N: 20}).Serialize()
			in.Inject(b)
		}
		time.Sleep(ms(c.CancelMs))
		cancel()
		t0 := time.Now()
		select {
		case r := <-resc:
			if el := time.Since(t0); el > finSendTimeout+closeSlack {
				violation = fmt.Sprintf("%s constructor returned %v after its context was cancelled", c.Role, el)
			}
			if r.conn != nil {
				// a returned connection must be unusable (it never finished
				// the handshake) and must shut down by itself
				_ = r.conn.Close()
			}
		case <-time.After(10 * time.Second):
			violation = fmt.Sprintf("%s constructor still blocked 10s after its context was cancelled", c.Role)
			return
		}
		time.Sleep(10 * time.Minute)
		synctest.Wait()
		if leaked := vnet.RepoGoroutines(vnet.BubbleGoroutines()); len(leaked) > 0 && violation == "" {
			violation = fmt.Sprintf("%d goroutine(s) left after a cancelled handshake:\n%s", len(leaked), strings.Join(leaked, "\n\n"))
		}
	})
	if out.Panic != "" && violation == "" {
		violation = "after cancelled handshake: " + out.Panic
	}
	return
}

func TestC12HandshakeCancel(t *testing.T) {
	const unit = "TestC12HandshakeCancel"
	rec := stats.New(t, "C12", unit)
	var rc hsCancelCase
	if stats.ReplayCase(unit, &rc) {
		if v := runC12Cancel(t, rc); v != "" {
			rec.Violation(v, "hs_cancel", rc)
			t.Fatal(v)
		}
		return
	}
	if stats.ReplayMode() {
		t.Skip()
	}
	rapid.Check(t, func(rt *rapid.T) {
		c := hsCancelCase{
			Role:     rapid.SampledFrom([]string{"client", "server"}).Draw(rt, "role"),
			CancelMs: rapid.SampledFrom([]int{0, 1, 49, 50, 51, 999, 1000, 1001, 2500, 60000}).Draw(rt, "cancel_ms"),
			PeerUp:   rapid.Bool().Draw(rt, "peer_up"),
			HsMs:     rapid.SampledFrom([]int{50, 1000, 2000}).Draw(rt, "hs_ms"),
		}
		rec.Current("hs_cancel", c)
		v := runC12Cancel(t, c)
		rec.Case(true, fmt.Sprintf("%+v", c), "handshake_cancel_"+c.Role)
		if rec.WantSample() {
			rec.Sample(c)
		}
		if v != "" {
			rec.Pending(v, "hs_cancel", c)
			rt.Fatalf("%s", v)
		}
	})
	rec.Done()
}

// ---------- blocking transport (real time) ----------

type blockClose struct {
	// HoldMs: how long the transport has been blocking when Close is called.
	// Values above the resend timeout (200ms) put a retransmission in
	// progress (queue.resend stuck in sendFunc) at that moment.
	HoldMs  int    `json:"hold_ms"`
	N       int    `json:"n"`
	Msgs    int    `json:"msgs"`
	Callers int    `json:"callers"`
	Who     string `json:"who"`
}

// runC12BlockingBatch runs the cases concurrently in real time: the transport's
// sendFunc blocks (until its ctx is cancelled) at the moment of Close.
func runC12BlockingBatch(cases []blockClose) []string {
	viol := make([]string, len(cases))
	var wg sync.WaitGroup
	for i := range cases {
		i := i
		wg.Add(1)
		go func() {
			defer wg.Done()
			c := cases[i]
			sc := &vnet.Scenario{N: c.N,
				Client: vnet.TimeoutCfg{Static: true, ResendMs: 200, HandshakeMs: 200},
				Server: vnet.TimeoutCfg{Static: true, ResendMs: 200, HandshakeMs: 200}}
			for k := 0; k < c.Msgs; k++ {
				// paced, so that sending is still going on when the
				// transport first loses and then blocks packets
				sc.C2S = append(sc.C2S, vnet.Msg{Len: 8, GapMs: 4})
				sc.S2C = append(sc.S2C, vnet.Msg{Len: 8, GapMs: 4})
			}
			env := vnet.NewEnv(sc)
			env.StartHandshake()
			if !env.WaitHandshake(20 * time.Second) {
				viol[i] = "handshake did not complete in 20s of real time (inconclusive)"
				env.CloseBoth()
				return
			}
			env.StartTraffic()
			// first lose packets for a while (data stays unacknowledged, so
			// a retransmission will be due), then block the transport
			time.Sleep(20 * time.Millisecond)
			env.C2S.SetSilent(true)
			env.S2C.SetSilent(true)
			time.Sleep(20 * time.Millisecond)
			env.C2S.SetHold(true)
			env.S2C.SetHold(true)
			env.C2S.SetSilent(false)
			env.S2C.SetSilent(false)
			hold := c.HoldMs
			if hold <= 0 {
				hold = 20
			}
			time.Sleep(time.Duration(hold) * time.Millisecond)
			conn := env.Client
			if c.Who == "server" {
				conn = env.Server
			}
			var cw sync.WaitGroup
			var mu sync.Mutex
			var worst time.Duration
			for k := 0; k < c.Callers; k++ {
				cw.Add(1)
				go func() {
					defer cw.Done()
					t0 := time.Now()
					_ = conn.Close()
					mu.Lock()
					if d := time.Since(t0); d > worst {
						worst = d
					}
					mu.Unlock()
				}()
			}
			done := make(chan struct{})
			go func() { cw.Wait(); close(done) }()
			select {
			case <-done:
				// bound: 10 x (FIN send timeout + slack), real time
				if worst > 10*(finSendTimeout+closeSlack) {
					viol[i] = fmt.Sprintf("Close took %v with a blocking transport (bound 10 x 1.05s)", worst)
				}
			case <-time.After(30 * time.Second):
				viol[i] = "Close still blocked after 30s with a blocking transport"
			}
			env.C2S.SetHold(false)
			env.S2C.SetHold(false)
			env.CloseBoth()
		}()
	}
	wg.Wait()
	return viol
}

func TestC12BlockingTransport(t *testing.T) {
	const unit = "TestC12BlockingTransport"
	rec := stats.New(t, "C12", unit)
	var rc blockClose
	if stats.ReplayCase(unit, &rc) {
		if v := runC12BlockingBatch([]blockClose{rc}); v[0] != "" {
			rec.Violation(v[0], "block_close", rc)
			t.Fatal(v[0])
		}
		return
	}
	if stats.ReplayMode() {
		t.Skip()
	}
	batches := stats.Scale(1, 6)
	rapid.Check(t, func(rt *rapid.T) {
		// one rapid case = one batch of concurrently running real-time cases
		var cases []blockClose
		for i := 0; i < 24; i++ {
			cases = append(cases, blockClose{
				HoldMs:  rapid.SampledFrom([]int{5, 20, 190, 250, 450, 700, 1100}).Draw(rt, "hold_ms"),
				N:       rapid.SampledFrom([]int{1, 2, 20}).Draw(rt, "n"),
				Msgs:    rapid.IntRange(0, 30).Draw(rt, "msgs"),
				Callers: rapid.IntRange(1, 3).Draw(rt, "callers"),
				Who:     rapid.SampledFrom([]string{"client", "server"}).Draw(rt, "who"),
			})
		}
		viol := runC12BlockingBatch(cases)
		for i, c := range cases {
			rec.Case(true, fmt.Sprintf("%+v", c), "blocking_transport")
			if i == 0 && rec.WantSample() {
				rec.Sample(c)
			}
			if viol[i] != "" && !strings.Contains(viol[i], "inconclusive") {
				rec.Pending(viol[i], "block_close", c)
				rt.Fatalf("%s", viol[i])
			}
		}
		// leak check in real time: after a settle period no goroutine with a
		// frame of the code under test may exist in this process.
		deadline := time.Now().Add(5 * time.Second)
		for {
			buf := make([]byte, 4<<20)
			buf = buf[:runtime.Stack(buf, true)]
			var leaked []string
			for _, g := range strings.Split(string(buf), "\n\n") {
				if strings.Contains(g, "lightning-node-connect/gbn.") {
					leaked = append(leaked, g)
				}
			}
			if len(leaked) == 0 {
				break
			}
			if time.Now().After(deadline) {
				v := fmt.Sprintf("%d goroutine(s) of closed connections still running 5s after Close with a blocking transport:\n%s", len(leaked), leaked[0])
				rec.Pending(v, "block_close", cases[0])
				rt.Fatalf("%s", v)
			}
			time.Sleep(100 * time.Millisecond)
		}
	})
	_ = batches
	rec.Done()
}
