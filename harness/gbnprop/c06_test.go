package gbnprop

import (
	"fmt"
	"strings"
	"sync"
	"testing"
	"time"

	"github.com/lightninglabs/lightning-node-connect/gbn"
	"pgregory.net/rapid"

	"verif/harness/stats"
	"verif/harness/vnet"
)

const c06K = 10

func genC06(t *rapid.T) *vnet.Scenario {
	sc := &vnet.Scenario{}
	sc.N = genN().Draw(t, "n")
	ka := rapid.IntRange(0, 2).Draw(t, "keepalive")
	switch ka {
	case 0: // keepalive off on both ends
		sc.Client = genTimeout(0).Draw(t, "client_to")
		sc.Server = genTimeout(0).Draw(t, "server_to")
	case 1: // the mailbox's settings
		sc.Client = vnet.TimeoutCfg{Mult: 5, Freq: 200, HandshakeMs: 2000, BoostPct: 50, PingMs: 7000, PongMs: 3000}
		sc.Server = vnet.TimeoutCfg{Mult: 5, Freq: 200, HandshakeMs: 2000, BoostPct: 50, PingMs: 5000, PongMs: 3000}
		if rapid.Bool().Draw(t, "static2s") {
			sc.Client.Static, sc.Client.ResendMs = true, 2000
		}
	default:
		sc.Client = genTimeout(2).Draw(t, "client_to")
		sc.Server = genTimeout(2).Draw(t, "server_to")
	}
	minResend := int(sc.Client.InitialResend() / time.Millisecond)
	if r := int(sc.Server.InitialResend() / time.Millisecond); r < minResend {
		minResend = r
	}
	// The clean handshake of this property needs a round trip below the
	// handshake timeout as well (otherwise SYN retransmissions leave stale
	// handshake packets behind, which is C10's subject, not C06's).
	for _, c := range []vnet.TimeoutCfg{sc.Client, sc.Server} {
		if h := int(c.InitialHandshake() / time.Millisecond); h < minResend {
			minResend = h
		}
	}
	half := (minResend - 1) / 2
	lat := rapid.SampledFrom([]int{0, 0, 1, half / 4, half / 2, half}).Draw(t, "lat")
	sc.LatC2SMs, sc.LatS2CMs = lat, lat
	if rapid.IntRange(0, 3).Draw(t, "asym") == 0 {
		sc.LatS2CMs = rapid.SampledFrom([]int{0, 1, half / 2, half}).Draw(t, "lat_s2c")
	}
	// keepalive pong must be answerable: round trip below the pong timeout
	for _, c := range []*vnet.TimeoutCfg{&sc.Client, &sc.Server} {
		if c.Keepalive() && c.PongMs <= sc.LatC2SMs+sc.LatS2CMs+1 {
			c.PongMs = sc.LatC2SMs + sc.LatS2CMs + 50
		}
	}
	shape := rapid.IntRange(0, 3).Draw(t, "shape")
	switch shape {
	case 0: // a burst, then nothing (tail loss when the last packet is dropped)
		m := genMsgs(t, "burst", 30, 64, []int{0, 0, 0, 1})
		if rapid.Bool().Draw(t, "dir") {
			sc.C2S = m
		} else {
			sc.S2C = m
		}
	case 1: // burst one way, slow trickle the other way
		sc.C2S = genMsgs(t, "c2s", 30, 64, []int{0, 0, 1})
		sc.S2C = genMsgs(t, "s2c", 30, 64, []int{100, 400, 900, 1500, 2500})
		if rapid.Bool().Draw(t, "swap") {
			sc.C2S, sc.S2C = sc.S2C, sc.C2S
		}
	case 2:
		sc.MaxChunk = rapid.SampledFrom([]int{1, 4, 16}).Draw(t, "chunk")
		sc.C2S = genMsgs(t, "c2s", 10, sc.MaxChunk*30, []int{0, 0, 10, 700})
		sc.S2C = genMsgs(t, "s2c", 10, sc.MaxChunk*30, []int{0, 0, 10, 700})
	default:
		sc.C2S = genMsgs(t, "c2s", 60, 128, []int{0, 0, 1, 20, 1100, 6000})
		sc.S2C = genMsgs(t, "s2c", 60, 128, []int{0, 0, 1, 20, 1100, 6000})
	}
	delays := []int{0, 1, minResend / 2, minResend - 1, minResend, minResend + 1, 2 * minResend}
	sc.FaultsC2S = genScript(t, "f_c2s", 150, delays)
	sc.FaultsS2C = genScript(t, "f_s2c", 150, delays)
	// "drop exactly the last packet of the burst": force a drop at a drawn
	// ordinal.
	if len(sc.FaultsC2S) > 0 && rapid.Bool().Draw(t, "tail_drop_c2s") {
		sc.FaultsC2S[len(sc.FaultsC2S)-1] = vnet.Decision{Kind: vnet.Drop}
	}
	if len(sc.FaultsS2C) > 0 && rapid.Bool().Draw(t, "tail_drop_s2c") {
		sc.FaultsS2C[len(sc.FaultsS2C)-1] = vnet.Decision{Kind: vnet.Drop}
	}
	sc.FaultUntilMs = rapid.SampledFrom([]int{0, 500, 3000, 20000}).Draw(t, "fault_until")
	sc.DeadlineMs = 3600 * 1000
	sc.QuiesceMs = rapid.SampledFrom([]int{0, 0, 30000, 120000}).Draw(t, "quiesce")
	return sc
}

type c06Result struct {
	violation string
	kind      string // stall | closure | half_open | quiescence | panic
	labels    []string
	tail      []string
	// facts for the known-finding predicate
	stallDir       string
	stallNoResend  bool
	stallArrivals  bool // packets kept arriving at the stalled sender more often than its resend timeout
	fullWindowOnly bool // every endpoint left open sat on a full window and received nothing since it filled
	nontrivial     bool
}

func maxDur(a ...time.Duration) time.Duration {
	var m time.Duration
	for _, x := range a {
		if x > m {
			m = x
		}
	}
	return m
}

func runC06(t *testing.T, sc *vnet.Scenario) (res c06Result) {
	var env *vnet.Env
	keepalive := sc.Client.Keepalive() || sc.Server.Keepalive()
	mon := &windowMonitor{s: sc.N + 1}
	out := vnet.InBubble(t, bubbleWatchdog, func() {
		env = vnet.NewEnv(sc)
		env.Trace.Observers = append(env.Trace.Observers, mon.observe)
		env.StartHandshake()
		if !env.WaitHandshake(600 * time.Second) {
			res.violation, res.kind = "clean handshake did not complete within 600s", "stall"
			env.CloseBoth()
			return
		}
		env.ArmFaults()
		env.StartTraffic()

		lat := ms(sc.LatC2SMs + sc.LatS2CMs)
		bound := func() time.Duration {
			r := maxDur(env.Client.VerifResendTimeout(), env.Server.VerifResendTimeout())
			h := maxDur(env.Client.VerifHandshakeTimeout(), env.Server.VerifHandshakeTimeout())
			return c06K * (r + h + lat)
		}
		pendingNow := false
		started := 0
		progress := func() (delivered, accepted, offered int, failed bool, firstFail int64) {
			env.Mu.Lock()
			defer env.Mu.Unlock()
			firstFail = -1
			pendingNow = false
			started = 0
			for d := 0; d < 2; d++ {
				ds := env.Dir[d]
				// data pending: a message accepted by Send is undelivered, or
				// a Send call is blocked (which means the window is full of
				// unacknowledged packets).
				if len(ds.SendDone) > len(ds.Recv) ||
					(len(ds.SendStart) > len(ds.SendDone) && ds.SendErr == nil) {
					pendingNow = true
				}
				delivered += len(ds.Recv)
				accepted += len(ds.SendDone)
				started += len(ds.SendStart)
				offered += len(ds.Offered)
				for _, e := range []struct {
					err error
					t   int64
				}{{ds.SendErr, ds.SendErrT}, {ds.RecvErr, ds.RecvErrT}} {
					if e.err != nil {
						failed = true
						if firstFail < 0 || e.t < firstFail {
							firstFail = e.t
						}
					}
				}
			}
			return
		}
		faultsOver := func() bool {
			if env.C2S.FaultsActive() || env.S2C.FaultsActive() {
				// the script is only consumed by traffic; if everything is
				// idle the remaining entries will never apply before new
				// packets are sent, which is when they count as faults.
				return false
			}
			_, d1 := env.C2S.LastFault()
			_, d2 := env.S2C.LastFault()
			now := time.Now()
			return !d1.After(now) && !d2.After(now)
		}

		deadline := time.Now().Add(ms(sc.DeadlineMs))
		lastCount := -1
		lastProgress := time.Now()
		boundAtGapStart := bound()
		var stalled bool
		for time.Now().Before(deadline) {
			del, acc, off, failed, _ := progress()
			if failed {
				break
			}
			if del == off {
				break
			}
			cnt := del + acc + started
			if cnt != lastCount || !faultsOver() || !pendingNow {
				lastCount = cnt
				lastProgress = time.Now()
				boundAtGapStart = bound()
			}
			// The gap is measured from the later of the last progress and
			// the instant the last fault was applied / the last delayed
			// packet became due.
			f1, d1 := env.C2S.LastFault()
			f2, d2 := env.S2C.LastFault()
			for _, ft := range []time.Time{f1, d1, f2, d2} {
				if ft.After(lastProgress) && !ft.After(time.Now()) {
					lastProgress = ft
				}
			}
			b := maxDur(boundAtGapStart, bound())
			if gap := time.Since(lastProgress); gap > b {
				stalled = true
				// describe the stall
				dir, pend := "", 0
				env.Mu.Lock()
				for d := 0; d < 2; d++ {
					if p := len(env.Dir[d].Offered) - len(env.Dir[d].Recv); p > pend {
						dir, pend = env.Dir[d].Name, p
					}
				}
				env.Mu.Unlock()
				res.stallDir = dir
				res.violation = fmt.Sprintf("silent stall: no delivery and no Send completion for %v of virtual time on a reliable link (bound %v = %d x (resend+handshake+rtt)); %d of %d delivered, %d accepted; both ends open",
					gap, b, c06K, del, off, acc)
				res.kind = "stall"
				// Did the stalled sender retransmit anything during the gap,
				// and how often did packets arrive at it?
				gapStart := env.Trace.Now() - gap.Microseconds()
				rev := "s2c"
				snd := env.Client
				if dir == "s2c" {
					rev, snd = "c2s", env.Server
				}
				rt := snd.VerifResendTimeout().Microseconds()
				resent, prev, maxGap := 0, gapStart, int64(0)
				for _, e := range env.Trace.Snapshot() {
					if e.T < gapStart {
						continue
					}
					if e.Ev == "send" && e.Dir == dir && e.Type == "DATA" && !strings.Contains(e.Fl, "P") {
						resent++
					}
					if e.Ev == "recv" && e.Dir == rev {
						if e.T-prev > maxGap {
							maxGap = e.T - prev
						}
						prev = e.T
					}
				}
				if env.Trace.Now()-prev > maxGap {
					maxGap = env.Trace.Now() - prev
				}
				res.stallNoResend = resent == 0
				res.stallArrivals = maxGap < rt
				break
			}
			// sleep until the next possible verdict or a change
			wait := b - time.Since(lastProgress) + time.Millisecond
			if wait > 5*time.Second {
				wait = 5 * time.Second
			}
			env.WaitUntil(wait, func() bool {
				d2, a2, _, f2, _ := progress()
				return f2 || d2+a2+started != cnt
			})
		}
		halfOpen := func(firstFail int64) {
			// Closure by keepalive is allowed; both endpoints' calls must
			// fail within a bounded time of the first failure.
			res.labels = append(res.labels, "closed_by_keepalive")
			pp := maxDur(ms(sc.Client.PingMs+sc.Client.PongMs), ms(sc.Server.PingMs+sc.Server.PongMs))
			// The timeouts are read when the verdict is given: a dynamic
			// resend timeout is boosted by every resend to the dead peer, and
			// the send loop only looks at the pong timer between resends. The
			// limit is re-evaluated a bounded number of times so that a
			// connection that never closes is still reported.
			var limit time.Duration
			for i := 0; i < 4; i++ {
				limit = pp + bound()
				left := limit - time.Duration(env.Trace.Now()-firstFail)*time.Microsecond
				if left <= 0 {
					break
				}
				time.Sleep(left)
			}
			var open []string
			openEnd := map[string]bool{}
			env.Mu.Lock()
			for d := 0; d < 2; d++ {
				if !env.Dir[d].ReceiverExited {
					open = append(open, env.Dir[d].Name+" receiver still blocked in Recv")
					// direction d is received by the server for d==0
					openEnd[map[int]string{0: "server", 1: "client"}[d]] = true
				}
			}
			env.Mu.Unlock()
			for name, c := range map[string]*gbn.GoBackNConn{"client": env.Client, "server": env.Server} {
				errc := make(chan error, 1)
				go func(c *gbn.GoBackNConn) { errc <- c.Send([]byte("probe")) }(c)
				select {
				case err := <-errc:
					if err == nil {
						open = append(open, name+" Send still succeeds")
						openEnd[name] = true
					}
				case <-time.After(time.Second):
					open = append(open, name+" Send blocks")
					openEnd[name] = true
				}
			}
			res.fullWindowOnly = len(openEnd) > 0
			for name := range openEnd {
				c := env.Client
				if name == "server" {
					c = env.Server
				}
				// The endpoint must be sitting in the window-full wait of its
				// send loop now (the window only grows by first
				// transmissions, so Size >= N means the loop is in that wait).
				w := c.VerifWindow()
				if !(w.Size >= w.N) {
					res.fullWindowOnly = false
				}
				// ... and without a ping of its own waiting for an answer:
				// with the pong timer armed the window-full wait does end
				// (it serves that timer), so staying open is something else.
				if mon.pingOutstanding(map[string]int{"client": 0, "server": 1}[name]) {
					res.fullWindowOnly = false
				}
			}
			if len(open) > 0 {
				res.violation = fmt.Sprintf("half-open connection: %v after the first failure: %s", limit, strings.Join(open, "; "))
				res.kind = "half_open"
			}
		}
		del, _, off, failed, firstFail := progress()
		switch {
		case stalled:
		case failed && !keepalive:
			env.Mu.Lock()
			var errs []string
			for d := 0; d < 2; d++ {
				ds := env.Dir[d]
				if ds.SendErr != nil {
					errs = append(errs, fmt.Sprintf("%s Send #%d: %v", ds.Name, ds.SendErrAt, ds.SendErr))
				}
				if ds.RecvErr != nil {
					errs = append(errs, fmt.Sprintf("%s Recv: %v", ds.Name, ds.RecvErr))
				}
			}
			env.Mu.Unlock()
			res.violation = "connection failed although keepalive is disabled and nobody closed it: " + strings.Join(errs, "; ")
			res.kind = "closure"
		case failed:
			halfOpen(firstFail)
		case del == off && sc.QuiesceMs > 0:
			// Quiescence: let outstanding ACK recovery finish, then no
			// non-ping DATA may appear.
			// Unacknowledged packets are legitimately retransmitted while
			// their ACK/NACKs are still being dropped, so first wait for
			// the fault scripts to be used up (retransmissions consume
			// them), then one more bound for the recovery to finish.
			settled := false
			for i := 0; i < 40 && !settled; i++ {
				time.Sleep(bound())
				settled = faultsOver()
				f1, _ := env.C2S.LastFault()
				f2, _ := env.S2C.LastFault()
				if time.Since(f1) < bound() || time.Since(f2) < bound() {
					settled = false
				}
			}
			if !settled {
				res.labels = append(res.labels, "quiescence_skipped_faults_left")
				break
			}
			if _, _, _, f, ff := progress(); f && !keepalive {
				res.violation, res.kind = "connection failed while idle although keepalive is disabled", "closure"
				break
			} else if f {
				// closed by keepalive while the fault script was still being
				// used up: closure is allowed, both ends must notice
				halfOpen(ff)
				break
			}
			mark := env.Trace.Now()
			time.Sleep(ms(sc.QuiesceMs))
			if _, _, _, f, ff := progress(); f && keepalive {
				halfOpen(ff)
				break
			}
			for _, e := range env.Trace.Snapshot() {
				if e.T > mark && e.Ev == "send" && e.Type == "DATA" && !strings.Contains(e.Fl, "P") {
					res.violation = fmt.Sprintf("not quiescent: DATA seq=%d retransmitted at t=%.3fms although everything had been delivered and acknowledged by t=%.3fms",
						e.Seq, float64(e.T)/1000, float64(mark)/1000)
					res.kind = "quiescence"
					break
				}
			}
			res.labels = append(res.labels, "quiescence_checked")
		case del != off:
			res.labels = append(res.labels, "deadline_reached")
		}
		if del == off {
			res.labels = append(res.labels, "completed")
		}
		env.CloseBoth()
	})
	if out.Panic != "" && !out.Deadlock && res.violation == "" {
		res.violation, res.kind = "panic in scenario root: "+out.Panic, "panic"
	}
	if env != nil {
		ti := analyse(env.Trace.Snapshot(), sc.N+1)
		if ti.retransmit {
			res.labels = append(res.labels, "retransmit")
		}
		if ti.faultHit {
			res.labels = append(res.labels, "fault_hit")
		}
		res.nontrivial = ti.retransmit && ti.faultHit
		if keepalive {
			res.labels = append(res.labels, "keepalive")
		}
		if res.violation != "" || debugTrace {
			res.tail = env.Trace.Tail(80)
		}
	}
	return
}

var c06mu sync.Mutex

func TestC06Progress(t *testing.T) {
	const unit = "TestC06Progress"
	rec := stats.New(t, "C06", unit)
	if scenarioReplay(t, rec, unit, 10, func(sc *vnet.Scenario) (string, []string) {
		r := runC06(t, sc)
		return r.violation, r.tail
	}) {
		return
	}
	rapid.Check(t, func(rt *rapid.T) {
		sc := genC06(rt)
		rec.Current("scenario", sc)
		vnet.FreezeHook = mutexDeadlockHook(rec, "scenario", sc, "silent stall")
		r := runC06(t, sc)
		if r.kind != "" {
			r.labels = append(r.labels, "viol_"+r.kind)
		}
		rec.Case(r.nontrivial, scKey(sc), r.labels...)
		if r.nontrivial && rec.WantSample() {
			rec.Sample(sc)
		}
		if r.violation != "" {
			if r.kind == "half_open" && r.fullWindowOnly && rec.IsKnown("gbn-dead-peer-full-window-c06") {
				rec.KnownHit("gbn-dead-peer-full-window-c06")
				return
			}
			rec.Pending(r.violation, "scenario", withTrace(sc, r.tail))
			rt.Fatalf("%s", r.violation)
		}
	})
	rec.Done()
}
