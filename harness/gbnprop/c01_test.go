package gbnprop

import (
	"fmt"
	"testing"
	"time"

	"pgregory.net/rapid"

	"verif/harness/stats"
	"verif/harness/vnet"
)

// genC01 draws a C01 scenario: any N, bidirectional traffic, independent fault
// scripts on both directions (handshake included in a minority of cases).
func genC01(t *rapid.T) *vnet.Scenario {
	sc := &vnet.Scenario{}
	sc.N = genN().Draw(t, "n")
	sc.Client = genTimeout(1).Draw(t, "client_to")
	sc.Server = genTimeout(1).Draw(t, "server_to")
	minResend := int(sc.Client.InitialResend() / time.Millisecond)
	if r := int(sc.Server.InitialResend() / time.Millisecond); r < minResend {
		minResend = r
	}
	sc.LatC2SMs = rapid.SampledFrom([]int{0, 0, 1, minResend / 4, minResend / 2, minResend - 1}).Draw(t, "lat_c2s")
	sc.LatS2CMs = rapid.SampledFrom([]int{0, 0, 1, minResend / 4, minResend / 2, minResend - 1}).Draw(t, "lat_s2c")

	// Traffic: enough packets to wrap the sequence space. With chunking a
	// single message is many packets, which makes wrapping s=255 cheap.
	shape := rapid.IntRange(0, 3).Draw(t, "shape")
	s := sc.N + 1
	switch shape {
	case 0: // many small messages, no chunking
		cnt := 3*s + 5
		if cnt > 120 {
			cnt = 120
		}
		sc.C2S = genMsgs(t, "c2s", cnt, 64, []int{0, 0, 0, 1, 10, 300})
		sc.S2C = genMsgs(t, "s2c", cnt, 64, []int{0, 0, 0, 1, 10, 300})
	case 1: // chunked large messages
		sc.MaxChunk = rapid.SampledFrom([]int{1, 2, 3, 7, 16, 64}).Draw(t, "chunk")
		maxLen := sc.MaxChunk * (s + 10)
		if maxLen > 600 {
			maxLen = 600
		}
		sc.C2S = genMsgs(t, "c2s", 12, maxLen, []int{0, 0, 5, 500})
		sc.S2C = genMsgs(t, "s2c", 12, maxLen, []int{0, 0, 5, 500})
	case 2: // unidirectional
		sc.MaxChunk = rapid.SampledFrom([]int{0, 0, 5, 50}).Draw(t, "chunk")
		m := genMsgs(t, "uni", 80, 512, []int{0, 0, 0, 2, 50, 1500})
		if rapid.Bool().Draw(t, "uni_dir") {
			sc.C2S = m
		} else {
			sc.S2C = m
		}
	default: // mixed
		sc.MaxChunk = rapid.SampledFrom([]int{0, 4, 32}).Draw(t, "chunk")
		sc.C2S = genMsgs(t, "c2s", 40, 200, []int{0, 0, 1, 20, 1100})
		sc.S2C = genMsgs(t, "s2c", 40, 200, []int{0, 0, 1, 20, 1100})
	}
	delays := []int{0, 1, minResend / 2, minResend - 1, minResend, minResend + 1, 2 * minResend, 3 * minResend}
	sc.FaultsC2S = genScript(t, "f_c2s", 300, delays)
	sc.FaultsS2C = genScript(t, "f_s2c", 300, delays)
	sc.FaultsFromStart = rapid.IntRange(0, 5).Draw(t, "faults_from_start") == 0
	sc.DeadlineMs = 600000
	// a receiving application that stays out of Recv for several resend
	// timeouts, at the start or after every few messages, while the peer
	// keeps sending: the receive buffer (N packets) is full and the receive
	// loop has to hold the next packet
	maxResend := int(sc.Client.InitialResend() / time.Millisecond)
	if r := int(sc.Server.InitialResend() / time.Millisecond); r > maxResend {
		maxResend = r
	}
	drawSlowReaders(t, sc, maxResend)
	return sc
}

// runC01 executes the scenario in a bubble and returns a violation (or "").
func runC01(t *testing.T, sc *vnet.Scenario) (violation string, tail []string, labels []string, nontrivial bool) {
	var env *vnet.Env
	mon := &windowMonitor{s: sc.N + 1}
	out := vnet.InBubble(t, bubbleWatchdog, func() {
		env = vnet.NewEnv(sc)
		env.Trace.Observers = append(env.Trace.Observers, mon.observe)
		env.StartHandshake()
		if !env.WaitHandshake(120 * time.Second) {
			labels = append(labels, "handshake_incomplete")
			env.CloseBoth()
			return
		}
		if !sc.FaultsFromStart {
			env.ArmFaults()
		}
		env.StartTraffic()
		done := env.WaitUntil(ms(sc.DeadlineMs), func() bool {
			return env.AllDelivered() || env.AnyFailure()
		})
		if !done {
			labels = append(labels, "deadline_reached")
		}
		if env.AnyFailure() {
			labels = append(labels, "endpoint_error")
		}
		env.CloseBoth()
	})
	if out.Panic != "" && !out.Deadlock {
		return "panic in scenario root: " + out.Panic, nil, labels, true
	}
	if out.Deadlock {
		labels = append(labels, "goroutines_left_after_close")
	}
	ev := env.Trace.Snapshot()
	ti := analyse(ev, sc.N+1)
	for d := 0; d < 2; d++ {
		ds := env.Dir[d]
		want := ds.Offered
		if ds.SendErrAt >= 0 {
			want = want[:ds.SendErrAt]
		}
		if v := vnet.PrefixViolation(ds.Name, want, ds.Recv); v != "" {
			violation = fmt.Sprintf("%s (send error index %d %v; received %d of %d)", v,
				ds.SendErrAt, ds.SendErr, len(ds.Recv), len(ds.Offered))
			break
		}
	}
	if env.AllDelivered() {
		labels = append(labels, "completed")
	}
	if ti.wrapped {
		labels = append(labels, "wrapped")
	}
	if ti.retransmit {
		labels = append(labels, "retransmit")
	}
	if ti.nack {
		labels = append(labels, "nack_seen")
	}
	mon.mu.Lock()
	if mon.cumAck > 0 {
		labels = append(labels, "ack_lost_then_cumulative")
	}
	if mon.nackBump > 0 {
		labels = append(labels, "nack_moved_base")
	}
	if mon.viol != "" && violation == "" {
		// the wire monitor of C09 runs here too
		violation = "window exceeded: " + mon.viol
	}
	mon.mu.Unlock()
	if len(sc.C2S) > 0 && len(sc.S2C) > 0 {
		labels = append(labels, "bidirectional")
	}
	if sc.SlowRecvC2S != nil || sc.SlowRecvS2C != nil {
		labels = append(labels, "slow_reader")
	}
	if sc.MaxChunk > 0 {
		labels = append(labels, "chunked")
	}
	if sc.Client.Keepalive() || sc.Server.Keepalive() {
		labels = append(labels, "keepalive")
	}
	if sc.N+1 == 255 {
		labels = append(labels, "s255")
	}
	if sc.N <= 2 {
		labels = append(labels, "n_le2")
	}
	nontrivial = ti.faultHit && ti.retransmit
	if violation != "" {
		tail = env.Trace.Tail(120)
	}
	return violation, tail, labels, nontrivial
}

func TestC01Delivery(t *testing.T) {
	const unit = "TestC01Delivery"
	rec := stats.New(t, "C01", unit)
	if scenarioReplay(t, rec, unit, 25, func(sc *vnet.Scenario) (string, []string) {
		v, tail, _, _ := runC01(t, sc)
		return v, tail
	}) {
		return
	}
	rapid.Check(t, func(rt *rapid.T) {
		sc := genC01(rt)
		rec.Current("scenario", sc)
		v, tail, labels, nt := runC01(t, sc)
		rec.Case(nt, scKey(sc), labels...)
		if nt && rec.WantSample() {
			rec.Sample(sc)
		}
		if v != "" {
			rec.Pending(v, "scenario", withTrace(sc, tail))
			rt.Fatalf("%s", v)
		}
	})
	rec.Done()
}
