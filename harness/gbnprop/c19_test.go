package gbnprop

import (
	"bytes"
	"fmt"
	"reflect"
	"strings"
	"testing"

	"github.com/lightninglabs/lightning-node-connect/gbn"
	"pgregory.net/rapid"

	"verif/harness/stats"
)

// normMsg maps a gbn.Message to a comparable value (nil payload == empty).
func normMsg(m gbn.Message) string {
	switch v := m.(type) {
	case *gbn.PacketData:
		return fmt.Sprintf("DATA seq=%d final=%v ping=%v payload=%x", v.Seq,
			v.FinalChunk, v.IsPing, v.Payload)
	case *gbn.PacketACK:
		return fmt.Sprintf("ACK seq=%d", v.Seq)
	case *gbn.PacketNACK:
		return fmt.Sprintf("NACK seq=%d", v.Seq)
	case *gbn.PacketSYN:
		return fmt.Sprintf("SYN n=%d", v.N)
	case *gbn.PacketFIN:
		return "FIN"
	case *gbn.PacketSYNACK:
		return "SYNACK"
	case nil:
		return "<nil>"
	default:
		return fmt.Sprintf("unknown %T", m)
	}
}

// safeDeserialize calls gbn.Deserialize and converts a panic into an error
// string (so that an enumeration can continue and report it).
func safeDeserialize(b []byte) (m gbn.Message, err error, panicked string) {
	defer func() {
		if r := recover(); r != nil {
			panicked = fmt.Sprint(r)
		}
	}()
	m, err = gbn.Deserialize(b)
	return
}

// roundTripValue checks Deserialize(Serialize(v)) == v.
func roundTripValue(v gbn.Message) string {
	b, err := v.Serialize()
	if err != nil {
		return fmt.Sprintf("Serialize(%s) failed: %v", normMsg(v), err)
	}
	got, err, p := safeDeserialize(b)
	if p != "" {
		return fmt.Sprintf("Deserialize(Serialize(%s)=%x) panicked: %s", normMsg(v), b, p)
	}
	if err != nil {
		return fmt.Sprintf("Deserialize(Serialize(%s)=%x) failed: %v", normMsg(v), b, err)
	}
	if reflect.TypeOf(got) != reflect.TypeOf(v) || normMsg(got) != normMsg(v) {
		return fmt.Sprintf("Deserialize(Serialize(%s)) = %s", normMsg(v), normMsg(got))
	}
	return ""
}

// roundTripBytes checks: if Deserialize(b) = v then Deserialize(Serialize(v)) == v.
// It returns (accepted, violation).
func roundTripBytes(b []byte) (bool, string) {
	v, err, p := safeDeserialize(b)
	if p != "" {
		return false, fmt.Sprintf("Deserialize(%x) panicked: %s", b, p)
	}
	if err != nil {
		if v != nil {
			return false, fmt.Sprintf("Deserialize(%x) returned both a value and error %v", b, err)
		}
		return false, ""
	}
	if v == nil {
		return false, fmt.Sprintf("Deserialize(%x) returned nil, nil", b)
	}
	return true, roundTripValue(v)
}

type c19Bytes struct {
	Hex string `json:"hex"`
}

// TestC19EnumValues enumerates every packet type with all 256 values of every
// one-byte field, both flags and a set of payload lengths.
func TestC19EnumValues(t *testing.T) {
	rec := stats.New(t, "C19", "TestC19EnumValues")
	var rb c19Bytes
	if stats.ReplayCase("TestC19EnumValues", &rb) {
		var b []byte
		fmt.Sscanf(rb.Hex, "%x", &b)
		if _, v := roundTripBytes(b); v != "" {
			rec.Violation(v, "bytes", rb)
			t.Fatal(v)
		}
		return
	}
	lens := []int{0, 1, 2, 3, 4, 5, 255, 256, 4096, 65535, 65536}
	fail := func(msg string, m gbn.Message) {
		b, _ := m.Serialize()
		rec.Violation(msg, "bytes", c19Bytes{Hex: fmt.Sprintf("%x", b)})
	}
	for x := 0; x < 256; x++ {
		for _, m := range []gbn.Message{
			&gbn.PacketACK{Seq: uint8(x)}, &gbn.PacketNACK{Seq: uint8(x)},
			&gbn.PacketSYN{N: uint8(x)},
		} {
			rec.Case(true, normMsg(m), "fixed_field")
			if v := roundTripValue(m); v != "" {
				fail(v, m)
			}
		}
		for _, fc := range []bool{false, true} {
			for _, ping := range []bool{false, true} {
				for _, l := range lens {
					payload := bytes.Repeat([]byte{byte(x) ^ 0x5a}, l)
					if l == 0 && x%2 == 0 {
						payload = nil
					}
					m := &gbn.PacketData{Seq: uint8(x), FinalChunk: fc, IsPing: ping, Payload: payload}
					rec.Case(true, fmt.Sprintf("DATA %d %v %v %d", x, fc, ping, l), "data")
					if v := roundTripValue(m); v != "" {
						fail(v, m)
					}
					if rec.WantSample() && x == 7 && l == 3 {
						rec.Sample(normMsg(m))
					}
				}
			}
		}
	}
	// every payload length up to 2100 bytes, and the neighbourhood of every
	// power of two up to 128 KiB (internal buffers, fast paths and length
	// fields have their boundaries there), with all four flag combinations
	// and position-dependent bytes (so that a shifted or truncated payload
	// cannot compare equal)
	var sweep []int
	for l := 0; l <= 2100; l++ {
		sweep = append(sweep, l)
	}
	for e := 12; e <= 17; e++ {
		for d := -3; d <= 3; d++ {
			sweep = append(sweep, (1<<e)+d)
		}
	}
	for _, l := range sweep {
		payload := make([]byte, l)
		for i := range payload {
			payload[i] = byte(i*7 + l)
		}
		for flags := 0; flags < 4; flags++ {
			m := &gbn.PacketData{Seq: uint8(l), FinalChunk: flags&1 != 0, IsPing: flags&2 != 0, Payload: payload}
			rec.Case(true, fmt.Sprintf("DATA len %d flags %d", l, flags), "data_length_sweep")
			if v := roundTripValue(m); v != "" {
				fail(v, m)
			}
		}
	}
	for _, m := range []gbn.Message{&gbn.PacketFIN{}, &gbn.PacketSYNACK{}} {
		rec.Case(true, normMsg(m), "no_field")
		if v := roundTripValue(m); v != "" {
			fail(v, m)
		}
	}
	rec.SetExhaustive(true)
	rec.Done()
	if rec.NumViolations() > 0 {
		t.Fatalf("%d violations", rec.NumViolations())
	}
}

// enumBytes enumerates every byte string of length 0..maxLen (first byte
// restricted to [lo,hi) for the longest length when restrict is set) through f.
func enumBytes(maxLen int, f func(b []byte)) {
	f(nil)
	for l := 1; l <= maxLen; l++ {
		b := make([]byte, l)
		var rec func(i int)
		rec = func(i int) {
			if i == l {
				f(b)
				return
			}
			for x := 0; x < 256; x++ {
				b[i] = byte(x)
				rec(i + 1)
			}
		}
		rec(0)
	}
}

// TestC19EnumBytes enumerates every byte string of length <= 3 through
// Deserialize (16.8M strings) and checks the re-serialisation law.
func TestC19EnumBytes(t *testing.T) {
	rec := stats.New(t, "C19", "TestC19EnumBytes")
	var rb c19Bytes
	if stats.ReplayCase("TestC19EnumBytes", &rb) {
		var b []byte
		fmt.Sscanf(rb.Hex, "%x", &b)
		if _, v := roundTripBytes(b); v != "" {
			rec.Violation(v, "bytes", rb)
			t.Fatal(v)
		}
		return
	}
	var total, accepted int64
	nviol := 0
	enumBytes(3, func(b []byte) {
		total++
		ok, v := roundTripBytes(b)
		if ok {
			accepted++
		}
		if v != "" && nviol < 5 {
			nviol++
			rec.Violation(v, "bytes", c19Bytes{Hex: fmt.Sprintf("%x", b)})
		}
	})
	// Non-trivial: byte strings that deserialise successfully (the law's
	// premise holds); every enumerated string is distinct.
	rec.CaseN(total, accepted, "C19EnumBytes<=3", "enum_bytes_le3")
	rec.Label("enum_bytes_accepted", accepted)
	rec.Sample(map[string]any{"enumerated": "all byte strings of length 0..3", "count": total, "accepted_by_Deserialize": accepted})
	rec.SetExhaustive(true)
	rec.Done()
	if nviol > 0 {
		t.Fatalf("%d violations", nviol)
	}
}

// TestC19Rapid draws random longer byte strings and structured packets.
func TestC19Rapid(t *testing.T) {
	rec := stats.New(t, "C19", "TestC19Rapid")
	var rb c19Bytes
	if stats.ReplayCase("TestC19Rapid", &rb) {
		var b []byte
		fmt.Sscanf(rb.Hex, "%x", &b)
		if _, v := roundTripBytes(b); v != "" {
			rec.Violation(v, "bytes", rb)
			t.Fatal(v)
		}
		return
	}
	rapid.Check(t, func(rt *rapid.T) {
		var b []byte
		structured := rapid.Bool().Draw(rt, "structured")
		if structured {
			typ := rapid.SampledFrom([]byte{1, 2, 3, 4, 5, 6, 0, 7, 255}).Draw(rt, "type")
			tail := rapid.SliceOfN(rapid.Byte(), 0, 300).Draw(rt, "tail")
			b = append([]byte{typ}, tail...)
		} else {
			b = rapid.SliceOfN(rapid.Byte(), 0, 70000).Draw(rt, "raw")
		}
		ok, v := roundTripBytes(b)
		rec.Case(ok && len(b) > 3, b, map[bool]string{true: "accepted", false: "rejected"}[ok])
		if ok && len(b) > 3 && rec.WantSample() {
			rec.Sample(c19Bytes{Hex: fmt.Sprintf("%.80x", b)})
		}
		if v != "" {
			rec.Pending(v, "bytes", c19Bytes{Hex: fmt.Sprintf("%x", b)})
			rt.Fatalf("%s", v)
		}
	})
	rec.Done()
}

// FuzzC19GBN is the native coverage-guided target (thorough tier).
func FuzzC19GBN(f *testing.F) {
	for _, s := range [][]byte{{1, 20}, {2, 0, 1, 0, 'h', 'i'}, {3, 5}, {4, 5}, {5}, {6}, {2}, {2, 0}, {2, 0, 0}, {2, 255, 255, 255}, {0xff, 0xff, 0xff, 0xff}} {
		f.Add(s)
	}
	f.Fuzz(func(t *testing.T, b []byte) {
		if _, v := roundTripBytes(b); v != "" {
			t.Fatal(v)
		}
	})
}

// TestC19History: a serialisation stays valid while later packets are
// serialised and deserialised (the send queue keeps packets for
// retransmission while new ones are being encoded). All packets of a drawn
// list are serialised first; then every byte string must still decode to its
// own packet, and the decoded values must not change while the rest is decoded.
func TestC19History(t *testing.T) {
	const unit = "TestC19History"
	rec := stats.New(t, "C19", unit)
	if stats.ReplayMode() {
		t.Skip()
	}
	rapid.Check(t, func(rt *rapid.T) {
		n := rapid.IntRange(2, 12).Draw(rt, "n")
		msgs := make([]gbn.Message, n)
		for i := range msgs {
			switch rapid.IntRange(0, 5).Draw(rt, "type") {
			case 0:
				msgs[i] = &gbn.PacketSYN{N: rapid.Uint8().Draw(rt, "n8")}
			case 1:
				msgs[i] = &gbn.PacketACK{Seq: rapid.Uint8().Draw(rt, "seq")}
			case 2:
				msgs[i] = &gbn.PacketNACK{Seq: rapid.Uint8().Draw(rt, "seq")}
			default:
				msgs[i] = &gbn.PacketData{Seq: rapid.Uint8().Draw(rt, "seq"), FinalChunk: rapid.Bool().Draw(rt, "fc"),
					IsPing: rapid.Bool().Draw(rt, "ping"), Payload: rapid.SliceOfN(rapid.Byte(), 0, 200).Draw(rt, "payload")}
			}
		}
		want := make([]string, n)
		wire := make([][]byte, n)
		for i, m := range msgs {
			want[i] = normMsg(m)
			b, err := m.Serialize()
			if err != nil {
				rt.Fatalf("Serialize(%s): %v", want[i], err)
			}
			wire[i] = b
		}
		decoded := make([]gbn.Message, n)
		for i := range wire {
			d, err := gbn.Deserialize(wire[i])
			if err != nil {
				v := fmt.Sprintf("packet #%d (%s) no longer deserialises after %d later packets were serialised: %v", i, want[i], n-1-i, err)
				rec.Pending(v, "history", map[string]any{"packets": want})
				rt.Fatalf("%s", v)
			}
			decoded[i] = d
		}
		for i := range decoded {
			if got := normMsg(decoded[i]); got != want[i] {
				v := fmt.Sprintf("packet #%d was serialised as %s; after the other %d packets were serialised and decoded it reads %s", i, want[i], n-1, got)
				rec.Pending(v, "history", map[string]any{"packets": want})
				rt.Fatalf("%s", v)
			}
		}
		rec.Case(true, fmt.Sprintf("%v", want), "serialisations_kept_across_later_ones")
		if rec.WantSample() {
			rec.Sample(map[string]any{"packets": want})
		}
	})
	rec.Done()
}

// TestC19ReusedValue: "deserialises from its own serialisation to an equal
// value" for a value with a past: ONE PacketData (fresh, or obtained from
// Deserialize) is serialised, then some of its fields are assigned new values
// in place (a flag flipped, a payload of the same or another length, the
// sequence number), and it is serialised again, several times over. Whatever
// a value remembers of its earlier encodings must not leak into the next one.
func TestC19ReusedValue(t *testing.T) {
	const unit = "TestC19ReusedValue"
	rec := stats.New(t, "C19", unit)
	if stats.ReplayMode() {
		t.Skip()
	}
	rapid.Check(t, func(rt *rapid.T) {
		p := &gbn.PacketData{Seq: rapid.Uint8().Draw(rt, "seq"), FinalChunk: rapid.Bool().Draw(rt, "fc"),
			IsPing: rapid.Bool().Draw(rt, "ping"), Payload: rapid.SliceOfN(rapid.Byte(), 0, 40).Draw(rt, "payload")}
		var hist []string
		if rapid.Bool().Draw(rt, "from_wire") {
			b, err := p.Serialize()
			if err != nil {
				rt.Fatalf("Serialize: %v", err)
			}
			m, err := gbn.Deserialize(b)
			if err != nil {
				rt.Fatalf("Deserialize: %v", err)
			}
			p = m.(*gbn.PacketData)
			hist = append(hist, "value obtained from Deserialize")
		}
		steps := rapid.IntRange(2, 8).Draw(rt, "steps")
		for i := 0; i < steps; i++ {
			switch rapid.IntRange(0, 5).Draw(rt, "mutate") {
			case 0:
				p.FinalChunk = !p.FinalChunk
				hist = append(hist, "FinalChunk flipped")
			case 1:
				p.IsPing = !p.IsPing
				hist = append(hist, "IsPing flipped")
			case 2:
				// another payload of the same length
				np := make([]byte, len(p.Payload))
				for j := range np {
					np[j] = rapid.Byte().Draw(rt, "b")
				}
				p.Payload = np
				hist = append(hist, "payload replaced, same length")
			case 3:
				p.Payload = rapid.SliceOfN(rapid.Byte(), 0, 40).Draw(rt, "payload2")
				hist = append(hist, "payload replaced")
			case 4:
				p.Seq = rapid.Uint8().Draw(rt, "seq2")
				hist = append(hist, "Seq assigned")
			default:
				hist = append(hist, "unchanged")
			}
			want := normMsg(&gbn.PacketData{Seq: p.Seq, FinalChunk: p.FinalChunk, IsPing: p.IsPing, Payload: append([]byte(nil), p.Payload...)})
			b, err := p.Serialize()
			if err != nil {
				rt.Fatalf("Serialize: %v", err)
			}
			d, err := gbn.Deserialize(b)
			var got string
			if err == nil {
				got = normMsg(d)
			}
			if err != nil || got != want {
				v := fmt.Sprintf("a PacketData value serialised for the %d. time (%s) holds %s but its serialisation decodes to %s (err %v)", i+1, strings.Join(hist, "; "), want, got, err)
				rec.Pending(v, "reused", map[string]any{"history": hist, "want": want})
				rt.Fatalf("%s", v)
			}
		}
		rec.Case(true, fmt.Sprintf("%v|%d", hist, p.Seq), "value_reserialised_after_assignment")
		if rec.WantSample() {
			rec.Sample(map[string]any{"history": hist})
		}
	})
	rec.Done()
}
