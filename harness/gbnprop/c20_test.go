package gbnprop

import (
	"fmt"
	"math"
	"testing"
	"time"

	"github.com/lightninglabs/lightning-node-connect/gbn"
	"pgregory.net/rapid"

	"verif/harness/stats"
	"verif/harness/vnet"
)

// tmEvent is one abstract event of a TimeoutManager history.
type tmEvent struct {
	Op     string `json:"op"` // sent_syn sent_data recv_syn recv_synack recv_ack recv_data recv_nack recv_fin adv
	Seq    int    `json:"seq,omitempty"`
	Resent bool   `json:"resent,omitempty"`
	// adv: Kind selects the amount relative to the current timeouts.
	Kind string `json:"kind,omitempty"` // zero ns base-1 base base+1 half ms big cur
	Ms   int    `json:"ms,omitempty"`
}

type tmCase struct {
	Static      bool      `json:"static"`
	ResendMs    int       `json:"resend_ms,omitempty"`
	HandshakeMs int       `json:"hs_ms,omitempty"`
	Mult        int       `json:"mult,omitempty"`
	Freq        int       `json:"freq,omitempty"`
	BoostPct    int       `json:"boost_pct,omitempty"`
	Events      []tmEvent `json:"events"`
}

type tmOutcome struct {
	violation string
	boosts    int
	updates   int
	reuse     bool // a resent seq was later sent fresh and acknowledged
}

func closeEnough(a, b time.Duration) bool {
	d := math.Abs(float64(a - b))
	return d <= 1e-5*math.Abs(float64(b))+1000 // 1e-5 relative + 1us
}

func runC20(t *testing.T, c *tmCase) (out tmOutcome) {
	cfg := vnet.TimeoutCfg{Static: c.Static, ResendMs: c.ResendMs, HandshakeMs: c.HandshakeMs,
		Mult: c.Mult, Freq: c.Freq, BoostPct: c.BoostPct}
	mult := 5
	if c.Mult > 0 {
		mult = c.Mult
	}
	pct := 0.5
	if c.BoostPct > 0 {
		pct = float64(float32(c.BoostPct) / 100)
	}
	bo := vnet.InBubble(t, bubbleWatchdog, func() {
		m := gbn.NewTimeOutManager(nil, cfg.Options()...)
		start := time.Now()
		now := func() time.Duration { return time.Since(start) }

		cfgResend := cfg.InitialResend()
		cfgHS := cfg.InitialHandshake()
		// The history does not always determine whether a recomputation
		// took place (how often one happens is not pinned, and a
		// recomputation can yield the value that is already in force), so
		// the model keeps every (un-boosted base, last effective
		// boost/recomputation) pair that is consistent with what was
		// observed; a check fails only if no candidate explains the value.
		type cand struct {
			base    time.Duration
			lastEff time.Duration
		}
		cands := []cand{{cfgResend, time.Duration(math.MinInt64 / 2)}}
		base := cfgResend // base of the first candidate, used to size clock advances
		var (
			samples       = map[int]time.Duration{} // seq -> send time of a never-retransmitted packet
			synSample     = time.Duration(-1)
			wasResent     = map[int]bool{}
			sampledBefore bool
			prevResend    = m.GetResendTimeout()
			prevHS        = m.GetHandshakeTimeout()
		)
		if prevResend != cfgResend {
			out.violation = fmt.Sprintf("initial resend timeout %v, configured %v", prevResend, cfgResend)
			return
		}
		if prevHS != cfgHS {
			out.violation = fmt.Sprintf("initial handshake timeout %v, configured %v", prevHS, cfgHS)
			return
		}
		for i, ev := range c.Events {
			fail := func(f string, a ...any) {
				out.violation = fmt.Sprintf("event #%d %+v at t=%v: %s", i, ev, now(), fmt.Sprintf(f, a...))
			}
			var (
				mayRecompute  bool
				mustRecompute bool
				mustWhy       string
				sample        time.Duration = -1
				mayBoost      bool
				mayBoostHS    bool
			)
			switch ev.Op {
			case "adv":
				var d time.Duration
				switch ev.Kind {
				case "zero":
				case "ns":
					d = 1
				case "base-1":
					d = base - 1
				case "base":
					d = base
				case "base+1":
					d = base + 1
				case "cur":
					d = m.GetResendTimeout()
				case "half":
					d = base / 2
				case "big":
					d = time.Duration(ev.Ms) * time.Second
				default:
					d = time.Duration(ev.Ms) * time.Millisecond
				}
				if d > 0 {
					time.Sleep(d)
				}
			case "sent_syn":
				m.Sent(&gbn.PacketSYN{N: 20}, ev.Resent)
				if ev.Resent {
					synSample = -1
					mayBoostHS = true
				} else {
					synSample = now()
				}
			case "sent_data":
				m.Sent(&gbn.PacketData{Seq: uint8(ev.Seq)}, ev.Resent)
				if ev.Resent {
					delete(samples, ev.Seq)
					wasResent[ev.Seq] = true
					mayBoost = true
				} else {
					samples[ev.Seq] = now()
				}
			case "recv_syn", "recv_synack":
				if ev.Op == "recv_syn" {
					m.Received(&gbn.PacketSYN{N: 20})
				} else {
					m.Received(&gbn.PacketSYNACK{})
				}
				if synSample >= 0 {
					mayRecompute, sample = true, synSample
					mustRecompute, mustWhy = true, "response to a SYN that was not retransmitted"
					synSample = -1
				}
			case "recv_ack":
				m.Received(&gbn.PacketACK{Seq: uint8(ev.Seq)})
				if st, ok := samples[ev.Seq]; ok {
					mayRecompute, sample = true, st
					switch {
					case !sampledBefore:
						mustRecompute, mustWhy = true, "first round-trip sample of the connection"
					case c.Freq == 1:
						mustRecompute, mustWhy = true, "update frequency 1: every sample is taken"
					}
					delete(samples, ev.Seq)
					if wasResent[ev.Seq] {
						out.reuse = true
					}
				}
			case "recv_data":
				m.Received(&gbn.PacketData{Seq: uint8(ev.Seq), FinalChunk: true})
			case "recv_nack":
				m.Received(&gbn.PacketNACK{Seq: uint8(ev.Seq)})
			case "recv_fin":
				m.Received(&gbn.PacketFIN{})
			}
			cur := m.GetResendTimeout()
			hs := m.GetHandshakeTimeout()

			// I5: static never changes.
			if c.Static {
				if cur != cfgResend {
					fail("static resend timeout changed from %v to %v", cfgResend, cur)
					return
				}
			} else if cur < time.Second {
				// I1
				fail("adaptive resend timeout %v is below the 1s floor", cur)
				return
			}
			// I6
			if hs < cfgHS {
				fail("handshake timeout %v below its configured value %v", hs, cfgHS)
				return
			}
			if hs != prevHS && !(mayBoostHS && !c.Static) {
				fail("handshake timeout changed from %v to %v on an event that is not a retransmitted SYN", prevHS, hs)
				return
			}
			if hs < prevHS {
				fail("handshake timeout decreased from %v to %v", prevHS, hs)
				return
			}
			if hs != prevHS {
				step := time.Duration(float64(cfgHS) * pct)
				if !closeEnough(hs-prevHS, step) {
					fail("handshake timeout grew by %v, one boost step is %v", hs-prevHS, step)
					return
				}
			}
			prevHS = hs
			if cur != prevResend {
				switch {
				case mayRecompute:
					// I3
					want := time.Duration(mult) * (now() - sample)
					if want < time.Second {
						want = time.Second
					}
					if !closeEnough(cur, want) {
						fail("resend timeout recomputed to %v; the fresh sample gives max(%d x %v, 1s) = %v with all boost removed",
							cur, mult, now()-sample, want)
						return
					}
					cands = []cand{{cur, now()}}
					out.updates++
				case mayBoost:
					// I4
					if cur < prevResend {
						fail("a retransmission lowered the resend timeout from %v to %v", prevResend, cur)
						return
					}
					var next []cand
					why := ""
					for _, c := range cands {
						step := time.Duration(float64(c.base) * pct)
						if !closeEnough(cur-prevResend, step) {
							why = fmt.Sprintf("boost raised the resend timeout by %v; one step is %v (base %v x %.2f)", cur-prevResend, step, c.base, pct)
							continue
						}
						if since := now() - c.lastEff; since < c.base {
							why = fmt.Sprintf("boost applied only %v after the previous effective boost/recomputation; at most one step per base interval %v", since, c.base)
							continue
						}
						next = append(next, cand{c.base, now()})
					}
					if len(next) == 0 {
						fail("%s", why)
						return
					}
					cands = next
					out.boosts++
				default:
					// I2
					fail("resend timeout changed from %v to %v on an event that can neither recompute nor boost it", prevResend, cur)
					return
				}
			} else if mayRecompute && !c.Static {
				// Value unchanged. A recomputation may still have taken
				// place if the fresh sample yields exactly the value in
				// force; then the base is that value and the boost clock was
				// restarted.
				want := time.Duration(mult) * (now() - sample)
				if want < time.Second {
					want = time.Second
				}
				if mustRecompute && !closeEnough(cur, want) {
					// I3 for the samples that are certainly taken: the
					// handshake sample, the first sample ever and, with an
					// update frequency of one, every sample. The boost must
					// be gone even if the measured value equals the base
					// already in force.
					fail("resend timeout stayed at %v although a fresh sample was taken (%s); the sample gives max(%d x %v, 1s) = %v with all boost removed",
						cur, mustWhy, mult, now()-sample, want)
					return
				}
				if mustRecompute {
					cands = []cand{{cur, now()}}
					out.updates++
				} else if closeEnough(cur, want) && len(cands) < 16 {
					cands = append(cands, cand{cur, now()})
				}
			}
			if mayRecompute {
				sampledBefore = true
			}
			base = cands[0].base
			prevResend = cur
		}
	})
	if bo.Panic != "" && out.violation == "" {
		out.violation = "panic: " + bo.Panic
	}
	return
}

func genC20(t *rapid.T) *tmCase {
	c := &tmCase{}
	c.Static = rapid.IntRange(0, 4).Draw(t, "static") == 0
	if c.Static {
		c.ResendMs = rapid.SampledFrom([]int{1, 50, 999, 1000, 5000}).Draw(t, "resend")
	}
	c.HandshakeMs = rapid.SampledFrom([]int{0, 1, 200, 2000}).Draw(t, "hs")
	c.Mult = rapid.SampledFrom([]int{0, 1, 2, 5, 20}).Draw(t, "mult")
	c.Freq = rapid.SampledFrom([]int{0, 1, 2, 3, 10, 300}).Draw(t, "freq")
	c.BoostPct = rapid.SampledFrom([]int{0, 1, 10, 50, 100, 300}).Draw(t, "boost")
	nseq := rapid.SampledFrom([]int{1, 2, 3, 8, 255}).Draw(t, "nseq")
	evGen := rapid.Custom(func(t *rapid.T) tmEvent {
		k := rapid.IntRange(0, 19).Draw(t, "kind")
		seq := rapid.IntRange(0, nseq-1).Draw(t, "seq")
		switch {
		case k < 5:
			return tmEvent{Op: "sent_data", Seq: seq, Resent: rapid.IntRange(0, 2).Draw(t, "resent") == 0}
		case k < 9:
			return tmEvent{Op: "recv_ack", Seq: seq}
		case k < 14:
			kind := rapid.SampledFrom([]string{"zero", "ns", "base-1", "base", "base+1", "cur", "half", "ms", "ms", "big"}).Draw(t, "adv")
			return tmEvent{Op: "adv", Kind: kind, Ms: rapid.SampledFrom([]int{1, 3, 50, 199, 200, 201, 1000, 3600}).Draw(t, "ms")}
		case k == 14:
			return tmEvent{Op: "sent_syn", Resent: rapid.Bool().Draw(t, "resent")}
		case k == 15:
			return tmEvent{Op: rapid.SampledFrom([]string{"recv_syn", "recv_synack"}).Draw(t, "op")}
		case k == 16:
			return tmEvent{Op: "recv_data", Seq: seq}
		case k == 17:
			return tmEvent{Op: "recv_nack", Seq: seq}
		case k == 18:
			return tmEvent{Op: "recv_fin"}
		default:
			return tmEvent{Op: "sent_data", Seq: seq, Resent: true}
		}
	})
	c.Events = rapid.SliceOfN(evGen, 1, 80).Draw(t, "events")
	return c
}

func TestC20TimeoutModel(t *testing.T) {
	const unit = "TestC20TimeoutModel"
	rec := stats.New(t, "C20", unit)
	var rc tmCase
	if stats.ReplayCase(unit, &rc) {
		if o := runC20(t, &rc); o.violation != "" {
			rec.Violation(o.violation, "tm_history", rc)
			t.Fatal(o.violation)
		}
		return
	}
	if stats.ReplayMode() {
		t.Skip()
	}
	rapid.Check(t, func(rt *rapid.T) {
		c := genC20(rt)
		rec.Current("tm_history", c)
		o := runC20(t, c)
		nt := o.reuse || (o.boosts > 0 && o.updates > 0)
		var labels []string
		if c.Static {
			labels = append(labels, "static")
		} else {
			labels = append(labels, "adaptive")
		}
		if o.boosts > 0 {
			labels = append(labels, "boosted")
		}
		if o.updates > 0 {
			labels = append(labels, "recomputed")
		}
		if o.reuse {
			labels = append(labels, "seq_reused_after_resend")
		}
		rec.Case(nt, fmt.Sprintf("%+v", *c), labels...)
		if nt && rec.WantSample() {
			rec.Sample(c)
		}
		if o.violation != "" {
			rec.Pending(o.violation, "tm_history", c)
			rt.Fatalf("%s", o.violation)
		}
	})
	rec.Done()
}
