package gbnprop

import (
	"bytes"
	"fmt"
	"strings"
	"sync"
	"testing"
	"testing/synctest"
	"time"

	"github.com/lightninglabs/lightning-node-connect/gbn"
	"pgregory.net/rapid"

	"verif/harness/stats"
	"verif/harness/vnet"
)

// c14Case: a sequence of message lengths over one connection, optionally with
// faults and with send/receive deadlines.
type c14Case struct {
	N     int `json:"n"`
	Chunk int `json:"chunk"`
	// PeerChunk: max chunk size configured on the receiving endpoint when it
	// differs from the sender's (0: same as Chunk, -1: none).
	PeerChunk int   `json:"peer_chunk,omitempty"`
	Lens      []int `json:"lens"`
	FromSrv   bool  `json:"from_srv"`
	FwdMs     int   `json:"fwd_ms"`
	RevMs     int   `json:"rev_ms"`
	ResendMs  int   `json:"resend_ms"`
	SendTOMs  int   `json:"send_to_ms,omitempty"` // 0: none
	RecvTOMs  int   `json:"recv_to_ms,omitempty"` // 0: none
	// RecvStartMs: the receiving application makes its first Recv call only
	// after this long (a slow reader: the receive buffer fills up first).
	RecvStartMs int             `json:"recv_start_ms,omitempty"`
	GapsMs      []int           `json:"gaps_ms,omitempty"`
	FaultsFwd   []vnet.Decision `json:"faults_fwd,omitempty"`
	FaultsRev   []vnet.Decision `json:"faults_rev,omitempty"`
	DeadlineMs  int             `json:"deadline_ms"`
}

// sendAttempt records one Send call: which message and how many of its chunks
// were handed to the connection before it returned.
type sendAttempt struct {
	Msg    int  `json:"msg"`
	Handed int  `json:"handed"`
	OK     bool `json:"ok"`
}

type c14Result struct {
	attempts    []sendAttempt
	defectModel bool // result is exactly what orphaned chunks of timed-out Sends explain
	violation   string
	labels      []string
	sendTimeout int // number of Send calls that timed out
	recvTimeout int
	midSend     bool // a Send timed out after >=1 and < all chunks were accepted
	midRecv     bool // a Recv timed out after it had taken >=1 chunk
	tail        []string
}

func isTimeoutErr(err error) bool {
	return err != nil && strings.Contains(err.Error(), "timeout")
}

func runC14(t *testing.T, c *c14Case) (res c14Result) {
	sc := &vnet.Scenario{N: c.N, MaxChunk: c.Chunk,
		Client: vnet.TimeoutCfg{Static: true, ResendMs: c.ResendMs, HandshakeMs: c.ResendMs},
		Server: vnet.TimeoutCfg{Static: true, ResendMs: c.ResendMs, HandshakeMs: c.ResendMs},
	}
	if c.PeerChunk != 0 {
		// sc.MaxChunk is the client's, sc.MaxChunkSrv the server's
		if c.FromSrv {
			sc.MaxChunkSrv = c.Chunk
			if c.Chunk == 0 {
				sc.MaxChunkSrv = -1
			}
			sc.MaxChunk = c.PeerChunk
			if c.PeerChunk < 0 {
				sc.MaxChunk = 0
			}
		} else {
			sc.MaxChunkSrv = c.PeerChunk
		}
	}
	d := 0
	if c.FromSrv {
		d = 1
		sc.LatS2CMs, sc.LatC2SMs = c.FwdMs, c.RevMs
		sc.FaultsS2C, sc.FaultsC2S = c.FaultsFwd, c.FaultsRev
	} else {
		sc.LatC2SMs, sc.LatS2CMs = c.FwdMs, c.RevMs
		sc.FaultsC2S, sc.FaultsS2C = c.FaultsFwd, c.FaultsRev
	}
	msgs := make([][]byte, len(c.Lens))
	for i, l := range c.Lens {
		msgs[i] = vnet.Payload('m', i, l)
	}
	var (
		env      *vnet.Env
		mu       sync.Mutex
		accepted [][]byte // messages whose Send returned nil
		got      [][]byte
		sendErr  error
		recvErr  error
	)
	// chunk accounting from the trace: number of first-transmission DATA
	// packets (non ping) seen on the data direction so far.
	var newChunks int
	nextSeq := 0
	maxPayload := 0
	obs := func(e vnet.TraceEvent) {
		if e.Ev == "send" && e.Type == "DATA" && dirIdx(e.Dir) == d && !strings.Contains(e.Fl, "P") {
			if e.Seq == nextSeq {
				nextSeq = (nextSeq + 1) % (c.N + 1)
				newChunks++
				if e.Len-4 > maxPayload {
					maxPayload = e.Len - 4
				}
			}
		}
	}
	out := vnet.InBubble(t, bubbleWatchdog, func() {
		env = vnet.NewEnv(sc)
		env.Trace.Observers = append(env.Trace.Observers, obs)
		env.StartHandshake()
		if !env.WaitHandshake(600 * time.Second) {
			res.labels = append(res.labels, "handshake_incomplete")
			env.CloseBoth()
			return
		}
		env.ArmFaults()
		snd, rcv := env.Client, env.Server
		if c.FromSrv {
			snd, rcv = env.Server, env.Client
		}
		if c.SendTOMs > 0 {
			snd.SetSendTimeout(ms(c.SendTOMs))
		}
		if c.RecvTOMs > 0 {
			rcv.SetRecvTimeout(ms(c.RecvTOMs))
		}
		if c.RecvTOMs < 0 {
			// polling: the deadline has passed by the time Recv looks at it,
			// whether or not chunks are buffered
			rcv.SetRecvTimeout(time.Nanosecond)
		}
		done := make(chan struct{})
		var wg sync.WaitGroup
		wg.Add(2)
		go func() { // sender
			defer wg.Done()
			for i, m := range msgs {
				if i < len(c.GapsMs) && c.GapsMs[i] > 0 {
					time.Sleep(ms(c.GapsMs[i]))
				}
				for attempt := 0; ; attempt++ {
					env.Trace.Mu().Lock()
					before := newChunks
					env.Trace.Mu().Unlock()
					err := snd.Send(m)
					// let the send loop put what it took on the wire
					// before counting chunks
					synctest.Wait()
					env.Trace.Mu().Lock()
					handedNow := newChunks - before
					env.Trace.Mu().Unlock()
					mu.Lock()
					res.attempts = append(res.attempts, sendAttempt{Msg: i, Handed: handedNow, OK: err == nil})
					mu.Unlock()
					if err == nil {
						mu.Lock()
						accepted = append(accepted, m)
						mu.Unlock()
						break
					}
					if !isTimeoutErr(err) {
						mu.Lock()
						sendErr = err
						mu.Unlock()
						return
					}
					env.Trace.Mu().Lock()
					handed := newChunks - before
					env.Trace.Mu().Unlock()
					mu.Lock()
					res.sendTimeout++
					if handed > 0 {
						res.midSend = true
					}
					mu.Unlock()
					if attempt > 200 {
						mu.Lock()
						sendErr = fmt.Errorf("gave up retrying: %w", err)
						mu.Unlock()
						return
					}
					// the retried call gets a longer deadline each time so
					// that it eventually fits
					snd.SetSendTimeout(ms(c.SendTOMs * (attempt + 2)))
				}
				if c.SendTOMs > 0 {
					snd.SetSendTimeout(ms(c.SendTOMs))
				}
			}
		}()
		go func() { // receiver
			defer wg.Done()
			if c.RecvStartMs > 0 {
				time.Sleep(ms(c.RecvStartMs))
			}
			for {
				b, err := rcv.Recv()
				if err == nil {
					mu.Lock()
					got = append(got, b)
					n := len(got)
					mu.Unlock()
					if n >= len(msgs) {
						return
					}
					continue
				}
				if isTimeoutErr(err) {
					mu.Lock()
					res.recvTimeout++
					mu.Unlock()
					select {
					case <-done:
						return
					default:
					}
					if c.RecvTOMs < 0 {
						// poll again a little later
						time.Sleep(ms(1 + c.FwdMs/4))
					}
					continue
				}
				mu.Lock()
				recvErr = err
				mu.Unlock()
				return
			}
		}()
		fin := make(chan struct{})
		go func() { wg.Wait(); close(fin) }()
		select {
		case <-fin:
		case <-time.After(ms(c.DeadlineMs)):
			res.labels = append(res.labels, "deadline_reached")
		}
		close(done)
		env.CloseBoth()
		<-fin
	})
	if out.Panic != "" && !out.Deadlock {
		res.violation = "panic in scenario root: " + out.Panic
		return
	}
	mu.Lock()
	defer mu.Unlock()
	// Oracle: results are a prefix of the accepted messages, and when the
	// run completed without endpoint errors they are equal, one per message.
	want := accepted
	if v := vnet.PrefixViolation("recv", msgs, got); v != "" {
		res.violation = v + fmt.Sprintf(" (chunk=%d, accepted %d, send timeouts %d mid=%v, recv timeouts %d)",
			c.Chunk, len(accepted), res.sendTimeout, res.midSend, res.recvTimeout)
	} else if len(got) > len(want) && sendErr == nil {
		// A message may be received before its Send returns; only count a
		// surplus once the sender has finished.
		if len(want) == len(msgs) {
			res.violation = fmt.Sprintf("received %d messages, only %d were sent", len(got), len(want))
		}
	} else if sendErr == nil && recvErr == nil && len(want) == len(msgs) && len(got) != len(msgs) &&
		!containsLabel(res.labels, "deadline_reached") {
		res.violation = fmt.Sprintf("all %d Sends succeeded but %d messages were received", len(msgs), len(got))
	}
	if res.violation != "" && res.midSend && c.Chunk > 0 && c.RecvTOMs == 0 {
		// Would the received list be explained exactly by the chunks that
		// timed-out Send calls left behind (known finding)? Rebuild the
		// chunk stream that was handed to the connection and split it at
		// the final-chunk marks.
		var exp [][]byte
		var cur []byte
		for _, a := range res.attempts {
			m := msgs[a.Msg]
			total := (len(m) + c.Chunk - 1) / c.Chunk
			if total == 0 {
				total = 1
			}
			for k := 0; k < a.Handed && k < total; k++ {
				lo, hi := k*c.Chunk, (k+1)*c.Chunk
				if hi > len(m) {
					hi = len(m)
				}
				cur = append(cur, m[lo:hi]...)
				if k == total-1 {
					exp = append(exp, cur)
					cur = nil
				}
			}
		}
		if vnet.PrefixViolation("model", exp, got) == "" {
			res.defectModel = true
		}
	}
	if res.violation == "" && c.Chunk > 0 && maxPayload > c.Chunk {
		res.violation = fmt.Sprintf("a DATA packet carried %d payload bytes with max chunk size %d", maxPayload, c.Chunk)
	}
	// mid-message receive timeout: approximated by "a Recv timed out while a
	// multi-chunk message was in transit"; classify only.
	if res.recvTimeout > 0 && c.Chunk > 0 {
		res.labels = append(res.labels, "recv_timeout_chunked")
	}
	if res.midSend {
		res.labels = append(res.labels, "send_timeout_mid_message")
	}
	if res.sendTimeout > 0 {
		res.labels = append(res.labels, "send_timeout")
	}
	if res.recvTimeout > 0 {
		res.labels = append(res.labels, "recv_timeout")
	}
	if len(got) == len(msgs) {
		res.labels = append(res.labels, "completed")
	}
	if res.violation != "" {
		res.tail = env.Trace.Tail(100)
	}
	return
}

func containsLabel(l []string, s string) bool {
	for _, x := range l {
		if x == s {
			return true
		}
	}
	return false
}

func c14Nontrivial(c *c14Case, r c14Result) bool {
	if r.midSend || (r.recvTimeout > 0 && c.Chunk > 0) {
		return true
	}
	for _, l := range c.Lens {
		if l == 0 {
			return true
		}
		if c.Chunk > 0 && (l%c.Chunk == 0 || l%c.Chunk == 1 || l%c.Chunk == c.Chunk-1) {
			return true
		}
	}
	return false
}

// TestC14Enum: exhaustive small scope. For every maxChunk in {0,1..16}: all
// lengths 0..48 as consecutive messages of one connection, then all ordered
// pairs of the boundary lengths {0,1,c-1,c,c+1,2c,2c+1}.
func TestC14Enum(t *testing.T) {
	const unit = "TestC14Enum"
	rec := stats.New(t, "C14", unit)
	var rc c14Case
	if stats.ReplayCase(unit, &rc) {
		if r := runC14(t, &rc); r.violation != "" {
			rec.Violation(r.violation, "c14", rc)
			t.Fatal(r.violation)
		}
		return
	}
	if stats.ReplayMode() {
		t.Skip()
	}
	nviol := 0
	for chunk := 0; chunk <= 16; chunk++ {
		for _, fromSrv := range []bool{false, true} {
			var lens []int
			for l := 0; l <= 48; l++ {
				lens = append(lens, l)
			}
			c := chunk
			if c == 0 {
				c = 5
			}
			b := []int{0, 1, c - 1, c, c + 1, 2 * c, 2*c + 1}
			for _, x := range b {
				for _, y := range b {
					lens = append(lens, x, y)
				}
			}
			cs := &c14Case{N: 3, Chunk: chunk, Lens: lens, FromSrv: fromSrv, ResendMs: 1000, DeadlineMs: 600000}
			rec.Current("c14", cs)
			r := runC14(t, cs)
			// each (chunk, length) and each (chunk, pair) is one enumerated case
			rec.CaseN(int64(len(lens)), int64(len(lens)), fmt.Sprintf("C14enum/%d/%v", chunk, fromSrv), "enum_len_x_chunk")
			if r.violation != "" && nviol < 5 {
				nviol++
				// minimise: find the first single length / pair that fails alone
				rec.Violation(r.violation, "c14", cs)
			}
		}
	}
	// every message length up to 1100 and around powers of two up to 64 KiB,
	// as consecutive messages of one conversation, without chunking and with
	// chunk sizes 64 and 1000 (a length-dependent path in Send, Serialize,
	// Recv or the reassembly buffer cannot hide from it)
	var sweep []int
	for l := 0; l <= 1100; l++ {
		sweep = append(sweep, l)
	}
	for e := 11; e <= 16; e++ {
		for d := -2; d <= 2; d++ {
			if v := (1 << e) + d; v <= 65535 {
				sweep = append(sweep, v)
			}
		}
	}
	for _, chunk := range []int{0, 64, 1000} {
		cs := &c14Case{N: 20, Chunk: chunk, Lens: sweep, FromSrv: chunk == 64, ResendMs: 1000, DeadlineMs: 3600000}
		rec.Current("c14", cs)
		r := runC14(t, cs)
		rec.CaseN(int64(len(sweep)), int64(len(sweep)), fmt.Sprintf("C14sweep/%d", chunk), "length_sweep")
		if r.violation != "" && nviol < 5 {
			nviol++
			rec.Violation(r.violation, "c14", cs)
		}
	}
	rec.Sample(map[string]any{"enumerated": "maxChunk 0..16 x (all lengths 0..48 as consecutive messages + all ordered pairs of {0,1,c-1,c,c+1,2c,2c+1}), both roles; plus every length 0..1100 and 2^k+-2 up to 65535 for maxChunk 0, 64, 1000"})
	rec.SetExhaustive(true)
	rec.Done()
	if nviol > 0 {
		t.Fatalf("%d violations", nviol)
	}
}

func genC14(t *rapid.T) *c14Case {
	c := &c14Case{}
	c.N = rapid.SampledFrom([]int{1, 1, 2, 3, 5, 20, 254}).Draw(t, "n")
	big := rapid.IntRange(0, 9).Draw(t, "big") == 0
	if big {
		c.Chunk = rapid.SampledFrom([]int{0, 1000, 32768, 65535, 65536}).Draw(t, "chunk")
		n := rapid.IntRange(1, 6).Draw(t, "count")
		for i := 0; i < n; i++ {
			c.Lens = append(c.Lens, rapid.OneOf(rapid.IntRange(0, 300*1024), rapid.SampledFrom([]int{65535, 65536, 65537, 131072})).Draw(t, "len"))
		}
	} else {
		c.Chunk = rapid.SampledFrom([]int{0, 1, 2, 3, 7, 16, 64}).Draw(t, "chunk")
		n := rapid.IntRange(1, 50).Draw(t, "count")
		cc := c.Chunk
		if cc == 0 {
			cc = 8
		}
		lenGen := rapid.OneOf(
			rapid.SampledFrom([]int{0, 1, cc - 1, cc, cc + 1, 2 * cc, 2*cc + 1, 3 * cc}),
			rapid.IntRange(0, cc*12),
		)
		for i := 0; i < n; i++ {
			c.Lens = append(c.Lens, lenGen.Draw(t, "len"))
		}
	}
	c.FromSrv = rapid.Bool().Draw(t, "from_srv")
	if rapid.IntRange(0, 3).Draw(t, "asym") == 0 {
		c.PeerChunk = rapid.SampledFrom([]int{-1, 1, 2, 5, 10, 64, 100000}).Draw(t, "peer_chunk")
	}
	c.ResendMs = rapid.SampledFrom([]int{100, 500, 1000}).Draw(t, "resend")
	c.FwdMs = rapid.SampledFrom([]int{0, 1, 20}).Draw(t, "fwd")
	c.RevMs = rapid.SampledFrom([]int{0, 1, 20, c.ResendMs / 2}).Draw(t, "rev")
	mode := rapid.IntRange(0, 3).Draw(t, "mode")
	rtt := c.FwdMs + c.RevMs
	if rtt == 0 {
		rtt = 1
	}
	switch mode {
	case 1: // send deadline that expires inside multi-chunk messages
		c.SendTOMs = rapid.SampledFrom([]int{1, rtt / 2, rtt, rtt + 1, 2 * rtt, 3*rtt + 1, 10 * rtt}).Draw(t, "send_to")
		if c.SendTOMs == 0 {
			c.SendTOMs = 1
		}
	case 2: // receive deadline
		// (the one-way latency and latency + k round trips are the instants at
		// which chunks arrive at a receiver that started waiting at time 0: a
		// deadline that expires at the very instant a chunk arrives is the
		// interesting coincidence)
		c.RecvTOMs = rapid.SampledFrom([]int{-1, 1, c.FwdMs, c.FwdMs + rtt, rtt / 2, rtt, rtt + 1, 2 * rtt, 3*rtt + 1, 10 * rtt}).Draw(t, "recv_to")
		if c.RecvTOMs == 0 {
			c.RecvTOMs = 1
		}
		// A profile in which deadlines and arrivals keep meeting: one-byte
		// chunks, a small window (arrivals are clocked by the round trip)
		// and a deadline that divides the round trip.
		if rapid.IntRange(0, 2).Draw(t, "coincide") == 0 && !big {
			c.Chunk = rapid.SampledFrom([]int{1, 2}).Draw(t, "cchunk")
			c.N = rapid.SampledFrom([]int{1, 2, 3}).Draw(t, "cn")
			c.FwdMs = 20
			c.RevMs = rapid.SampledFrom([]int{0, 20}).Draw(t, "crev")
			rtt = c.FwdMs + c.RevMs
			c.RecvTOMs = rapid.SampledFrom([]int{5, 10, 20}).Draw(t, "cto")
		}
		gapGen := rapid.SampledFrom([]int{0, 0, 1, rtt, 3 * rtt, 20 * rtt})
		for range c.Lens {
			c.GapsMs = append(c.GapsMs, gapGen.Draw(t, "gap"))
		}
	case 3: // faults
		delays := []int{0, 1, c.ResendMs / 2, c.ResendMs, 2 * c.ResendMs}
		c.FaultsFwd = genScript(t, "f_fwd", 200, delays)
		c.FaultsRev = genScript(t, "f_rev", 200, delays)
	}
	// a slow reader: the application starts reading several resend timeouts
	// late, with more chunks on their way than the receive buffer holds
	if mode == 0 && rapid.IntRange(0, 2).Draw(t, "slow_reader") == 0 {
		c.RecvStartMs = c.ResendMs*rapid.SampledFrom([]int{1, 2, 3, 10}).Draw(t, "recv_start") + 1
	}
	c.DeadlineMs = 900000
	return c
}

func TestC14Rapid(t *testing.T) {
	const unit = "TestC14Rapid"
	rec := stats.New(t, "C14", unit)
	var rc c14Case
	if stats.ReplayCase(unit, &rc) {
		for i := 0; i < 10; i++ {
			if r := runC14(t, &rc); r.violation != "" {
				rec.Violation(r.violation, "c14", rc)
				t.Fatalf("%s\n%s", r.violation, strings.Join(r.tail, "\n"))
			}
		}
		return
	}
	if stats.ReplayMode() {
		t.Skip()
	}
	rapid.Check(t, func(rt *rapid.T) {
		c := genC14(rt)
		rec.Current("c14", c)
		r := runC14(t, c)
		nt := c14Nontrivial(c, r)
		rec.Case(nt, fmt.Sprintf("%+v", *c), r.labels...)
		if nt && rec.WantSample() {
			rec.Sample(c)
		}
		if r.violation != "" {
			// Known-finding predicates (DESIGN.md 5/C14).
			if r.defectModel && rec.IsKnown("gbn-send-timeout-mid-message") {
				rec.KnownHit("gbn-send-timeout-mid-message")
				return
			}
			rec.Pending(r.violation, "c14", c)
			rt.Fatalf("%s", r.violation)
		}
	})
	rec.Done()
}

var _ = bytes.Equal
var _ gbn.Message
