package gbnprop

import (
	"fmt"
	"strings"
	"testing"
	"time"

	"github.com/lightninglabs/lightning-node-connect/gbn"
	"pgregory.net/rapid"

	"verif/harness/stats"
	"verif/harness/vnet"
)

// ---------- dead peer ----------

func genC13Dead(t *rapid.T) *vnet.Scenario {
	sc := &vnet.Scenario{}
	sc.N = rapid.SampledFrom([]int{1, 2, 3, 3, 5, 20, 20, 254, 254}).Draw(t, "n")
	mk := func(label string, must bool) vnet.TimeoutCfg {
		var c vnet.TimeoutCfg
		c.Static = rapid.Bool().Draw(t, label+"_static")
		if c.Static {
			c.ResendMs = rapid.SampledFrom([]int{100, 500, 1000, 2000}).Draw(t, label+"_resend")
		} else {
			c.Mult = rapid.SampledFrom([]int{0, 2, 5}).Draw(t, label+"_mult")
			c.BoostPct = rapid.SampledFrom([]int{0, 50, 100}).Draw(t, label+"_boost")
		}
		c.HandshakeMs = rapid.SampledFrom([]int{0, 200, 2000}).Draw(t, label+"_hs")
		if must || rapid.Bool().Draw(t, label+"_ka") {
			// includes pong timeouts longer than the ping interval
			pp := rapid.SampledFrom([][2]int{{5000, 3000}, {7000, 3000}, {1000, 500}, {300, 100}, {2000, 1000}, {100, 50},
				{500, 1000}, {1500, 3000}, {100, 300}, {1000, 1000}}).Draw(t, label+"_pp")
			c.PingMs, c.PongMs = pp[0], pp[1]
		}
		return c
	}
	which := rapid.IntRange(0, 2).Draw(t, "which_ka")
	sc.Client = mk("client", which != 1)
	sc.Server = mk("server", which != 0)
	lat := rapid.SampledFrom([]int{0, 0, 1, 10, 40}).Draw(t, "lat")
	sc.LatC2SMs, sc.LatS2CMs = lat, lat
	// traffic before the silence: bursts of k messages with k from 0 to
	// beyond N on either side
	kmax := sc.N + 3
	if kmax > 40 {
		kmax = 40
	}
	burst := func(label string) []vnet.Msg {
		k := rapid.OneOf(rapid.SampledFrom([]int{0, 0, 1, sc.N - 1, sc.N, sc.N + 1, sc.N + 3}), rapid.IntRange(0, kmax)).Draw(t, label+"_k")
		if k < 0 {
			k = 0
		}
		if k > 300 {
			k = 300
		}
		m := make([]vnet.Msg, k)
		at := rapid.SampledFrom([]int{0, 1, 50, 400, 1000, 3000}).Draw(t, label+"_at")
		// trickle: the application keeps sending at intervals below the ping
		// interval (also after the transport has gone silent), instead of
		// one burst
		gap := 0
		if rapid.IntRange(0, 2).Draw(t, label+"_trickle") == 0 {
			ping := sc.Client.PingMs
			if sc.Server.PingMs > 0 && (ping == 0 || sc.Server.PingMs < ping) {
				ping = sc.Server.PingMs
			}
			if ping == 0 {
				ping = 1000
			}
			gap = rapid.SampledFrom([]int{ping / 4, ping / 2, ping - 1}).Draw(t, label+"_gap")
		}
		for i := range m {
			m[i].Len = rapid.IntRange(0, 32).Draw(t, label+"_len")
			m[i].GapMs = gap
		}
		if k > 0 {
			m[0].GapMs = at
		}
		return m
	}
	sc.C2S = burst("c2s")
	sc.S2C = burst("s2c")
	silenceAt := rapid.SampledFrom([]int{0, 1, 49, 50, 51, 399, 400, 401, 1000, 1001, 1500, 3000, 3001, 9000}).Draw(t, "silence_at")
	sc.Events = []vnet.Event{{AtMs: silenceAt, Kind: "silence", Who: "both"}}
	return sc
}

type c13Result struct {
	violation  string
	labels     []string
	tail       []string
	fullWindow bool // every undetecting endpoint sat on a full window
	nontrivial bool
}

func runC13Dead(t *testing.T, sc *vnet.Scenario) (res c13Result) {
	var env *vnet.Env
	mon := &windowMonitor{s: sc.N + 1}
	out := vnet.InBubble(t, bubbleWatchdog, func() {
		env = vnet.NewEnv(sc)
		env.Trace.Observers = append(env.Trace.Observers, mon.observe)
		env.StartHandshake()
		if !env.WaitHandshake(600 * time.Second) {
			res.labels = append(res.labels, "handshake_incomplete")
			env.CloseBoth()
			return
		}
		env.StartTraffic()
		start := time.Now()
		silenceAt := ms(sc.Events[0].AtMs)
		time.Sleep(silenceAt - time.Since(start))
		// outstanding data at the moment of silence
		wc, ws := env.Client.VerifWindow(), env.Server.VerifWindow()
		if wc.Size > 0 || ws.Size > 0 {
			res.labels = append(res.labels, "data_outstanding_at_silence")
			res.nontrivial = true
		}
		if wc.Size >= wc.N || ws.Size >= ws.N {
			res.labels = append(res.labels, "window_full_at_silence")
		}
		env.C2S.SetSilent(true)
		env.S2C.SetSilent(true)
		t0 := time.Now()

		type ep struct {
			name string
			c    *gbn.GoBackNConn
			cfg  vnet.TimeoutCfg
			recv int // direction index whose receiver belongs to this endpoint
		}
		eps := []ep{{"client", env.Client, sc.Client, 1}, {"server", env.Server, sc.Server, 0}}
		limit := func(e ep) time.Duration {
			return ms(e.cfg.PingMs+e.cfg.PongMs) + 8*e.c.VerifResendTimeout() + time.Second
		}
		closed := func(e ep) bool {
			env.Mu.Lock()
			defer env.Mu.Unlock()
			return env.Dir[e.recv].ReceiverExited
		}
		var undetected []string
		allFull := true
		for _, e := range eps {
			if !e.cfg.Keepalive() {
				continue
			}
			// wait until the (growing) limit has passed or it closed
			for i := 0; i < 20 && !closed(e); i++ {
				l := limit(e)
				if time.Since(t0) > l {
					break
				}
				env.WaitUntil(l-time.Since(t0)+time.Millisecond, func() bool { return closed(e) })
			}
			if closed(e) {
				// its other calls must fail too, promptly
				errc := make(chan error, 1)
				go func() { errc <- e.c.Send([]byte("x")) }()
				select {
				case err := <-errc:
					if err == nil {
						undetected = append(undetected, e.name+": Recv failed but a later Send succeeded")
						allFull = false
					}
				case <-time.After(time.Second):
					undetected = append(undetected, e.name+": Recv failed but a later Send blocks")
					allFull = false
				}
				continue
			}
			w := e.c.VerifWindow()
			undetected = append(undetected, fmt.Sprintf("%s still open %v after the transport went silent (limit ping+pong+8*resend+1s = %v; window %d/%d)",
				e.name, time.Since(t0), limit(e), w.Size, w.N))
			if w.Size < w.N || mon.pingOutstanding(1-e.recv) {
				// (with a ping of its own unanswered the pong timer is armed
				// and the window-full wait serves it: not the recorded finding)
				allFull = false
			}
		}
		if len(undetected) > 0 {
			res.violation = "dead peer not detected: " + strings.Join(undetected, "; ")
			res.fullWindow = allFull
		}
		// a FIN attempt must have been made by every endpoint that closed
		env.CloseBoth()
	})
	if out.Panic != "" && !out.Deadlock && res.violation == "" {
		res.violation = "panic in scenario root: " + out.Panic
	}
	if env != nil && res.violation != "" {
		res.tail = env.Trace.Tail(80)
	}
	return
}

func TestC13DeadPeer(t *testing.T) {
	const unit = "TestC13DeadPeer"
	rec := stats.New(t, "C13", unit)
	if scenarioReplay(t, rec, unit, 10, func(sc *vnet.Scenario) (string, []string) {
		r := runC13Dead(t, sc)
		return r.violation, r.tail
	}) {
		return
	}
	rapid.Check(t, func(rt *rapid.T) {
		sc := genC13Dead(rt)
		rec.Current("scenario", sc)
		vnet.FreezeHook = mutexDeadlockHook(rec, "scenario", sc, "dead peer cannot be detected")
		r := runC13Dead(t, sc)
		rec.Case(r.nontrivial, scKey(sc), r.labels...)
		if r.nontrivial && rec.WantSample() {
			rec.Sample(sc)
		}
		if r.violation != "" {
			if r.fullWindow && rec.IsKnown("gbn-dead-peer-full-window-c13") {
				rec.KnownHit("gbn-dead-peer-full-window-c13")
				return
			}
			rec.Pending(r.violation, "scenario", withTrace(sc, r.tail))
			rt.Fatalf("%s", r.violation)
		}
	})
	rec.Done()
}

// ---------- live idle peer ----------

type liveCase struct {
	N        int             `json:"n"`
	Client   vnet.TimeoutCfg `json:"client"`
	Server   vnet.TimeoutCfg `json:"server"`
	LatC2SMs int             `json:"lat_c2s_ms"`
	LatS2CMs int             `json:"lat_s2c_ms"`
	// Phases: alternately idle for IdleMs then a burst of Burst messages in
	// a drawn direction.
	Phases []livePhase `json:"phases"`
}

type livePhase struct {
	IdleMs  int  `json:"idle_ms"`
	Burst   int  `json:"burst"`
	FromSrv bool `json:"from_srv"`
	// LoseAcks: at the start of the idle period the next LoseAcks ACK packets
	// towards the client are lost. The peer is still alive and answers the
	// retransmitted packet (with a NACK for the next sequence number it
	// expects) well within the pong timeout: any packet is a sign of life.
	LoseAcks int `json:"lose_acks,omitempty"`
}

func genC13Live(t *rapid.T) *liveCase {
	c := &liveCase{}
	c.N = rapid.SampledFrom([]int{1, 2, 3, 20, 254}).Draw(t, "n")
	mk := func(label string) vnet.TimeoutCfg {
		var x vnet.TimeoutCfg
		x.Static = rapid.Bool().Draw(t, label+"_static")
		if x.Static {
			x.ResendMs = rapid.SampledFrom([]int{500, 1000, 2000}).Draw(t, label+"_resend")
		}
		x.HandshakeMs = rapid.SampledFrom([]int{0, 2000}).Draw(t, label+"_hs")
		pp := rapid.SampledFrom([][2]int{{5000, 3000}, {7000, 3000}, {1000, 500}, {300, 100}, {2000, 1000}, {100, 50}, {1000, 3000}, {500, 1000}, {100, 300}, {1000, 1000}}).Draw(t, label+"_pp")
		x.PingMs, x.PongMs = pp[0], pp[1]
		return x
	}
	c.Client, c.Server = mk("client"), mk("server")
	minPong := c.Client.PongMs
	if c.Server.PongMs < minPong {
		minPong = c.Server.PongMs
	}
	// round trip strictly below the pong timeout (margin >= 1ms) and below
	// the resend timeouts
	maxRTT := minPong - 1
	for _, x := range []vnet.TimeoutCfg{c.Client, c.Server} {
		if r := int(x.InitialResend()/time.Millisecond) - 1; r < maxRTT {
			maxRTT = r
		}
		// a clean handshake (no SYN retransmission) is the precondition
		if r := int(x.InitialHandshake()/time.Millisecond) - 1; r < maxRTT {
			maxRTT = r
		}
	}
	rtt := rapid.SampledFrom([]int{0, 2, maxRTT / 2, maxRTT - 1, maxRTT}).Draw(t, "rtt")
	if rtt < 0 {
		rtt = 0
	}
	c.LatC2SMs = rapid.IntRange(0, rtt).Draw(t, "lat_c2s")
	c.LatS2CMs = rtt - c.LatC2SMs
	minPing := c.Client.PingMs
	if c.Server.PingMs < minPing {
		minPing = c.Server.PingMs
	}
	np := rapid.IntRange(1, 4).Draw(t, "phases")
	for i := 0; i < np; i++ {
		mulp := rapid.SampledFrom([]int{0, 1, 2, 3, 10, 11, 100, 1000}).Draw(t, "idle_mult")
		off := rapid.SampledFrom([]int{-1, 0, 1, 37}).Draw(t, "idle_off")
		idle := mulp*minPing/2 + off
		if idle < 0 {
			idle = 0
		}
		ph := livePhase{IdleMs: idle,
			Burst:   rapid.SampledFrom([]int{0, 1, 1, 2, c.N, c.N + 2}).Draw(t, "burst"),
			FromSrv: rapid.Bool().Draw(t, "from_srv")}
		// One lost ACK: only where the retransmission and its answer still
		// fit into the client's pong timeout with a clear margin, i.e. the
		// peer does answer in time.
		// ... and the peer's NACK back-off (no second NACK for the same
		// sequence number within two of its resend timeouts) must have run
		// out by the time the ping goes out, otherwise the live peer stays
		// silent by design and the closure is its own doing (seen on the
		// unchanged tree: one lost ACK of a ping then closes an idle
		// connection; C13 does not promise otherwise).
		if c.Client.Static && c.Server.Static && c.Client.ResendMs+rtt+100 < c.Client.PongMs && idle >= c.Client.PingMs &&
			c.Client.PingMs > 2*c.Server.ResendMs+500 &&
			rapid.IntRange(0, 2).Draw(t, "lose_ack") == 0 {
			ph.LoseAcks = 1
		}
		c.Phases = append(c.Phases, ph)
	}
	return c
}

func runC13Live(t *testing.T, c *liveCase) (violation string, tail []string, idleTotal time.Duration) {
	sc := &vnet.Scenario{N: c.N, Client: c.Client, Server: c.Server, LatC2SMs: c.LatC2SMs, LatS2CMs: c.LatS2CMs}
	var env *vnet.Env
	out := vnet.InBubble(t, bubbleWatchdog, func() {
		env = vnet.NewEnv(sc)
		env.StartHandshake()
		if !env.WaitHandshake(600 * time.Second) {
			violation = "clean handshake did not complete"
			env.CloseBoth()
			return
		}
		env.StartReceiver(0)
		env.StartReceiver(1)
		sent := [2]int{}
		for pi, ph := range c.Phases {
			if ph.LoseAcks > 0 {
				env.S2C.DropNext("ACK", ph.LoseAcks)
			}
			time.Sleep(ms(ph.IdleMs))
			idleTotal += ms(ph.IdleMs)
			if env.AnyFailure() {
				violation = fmt.Sprintf("connection failed during/after idle phase %d (%dms) although the peer answers within the pong timeout", pi, ph.IdleMs)
				break
			}
			d, snd := 0, env.Client
			if ph.FromSrv {
				d, snd = 1, env.Server
			}
			if ph.Burst > 300 {
				ph.Burst = 300
			}
			for i := 0; i < ph.Burst; i++ {
				p := vnet.Payload(byte('a'+d), sent[d], 9)
				env.Mu.Lock()
				env.Dir[d].Offered = append(env.Dir[d].Offered, p)
				env.Mu.Unlock()
				errc := make(chan error, 1)
				go func() { errc <- snd.Send(p) }()
				select {
				case err := <-errc:
					if err != nil {
						violation = fmt.Sprintf("Send failed in phase %d after %dms idle: %v", pi, ph.IdleMs, err)
					}
				case <-time.After(60 * time.Second):
					violation = fmt.Sprintf("Send blocked for 60s in phase %d on a healthy link", pi)
				}
				if violation != "" {
					break
				}
				sent[d]++
			}
			if violation != "" {
				break
			}
			want := sent
			if !env.WaitUntil(60*time.Second, func() bool {
				env.Mu.Lock()
				defer env.Mu.Unlock()
				return len(env.Dir[0].Recv) >= want[0] && len(env.Dir[1].Recv) >= want[1]
			}) {
				violation = fmt.Sprintf("messages sent after %dms idle (phase %d) were not delivered within 60s on a healthy link", ph.IdleMs, pi)
				break
			}
		}
		if violation == "" && env.AnyFailure() {
			violation = "an endpoint call failed although the peer answers within the pong timeout"
		}
		if violation == "" {
			for _, e := range env.Trace.Snapshot() {
				if e.Type == "FIN" {
					violation = fmt.Sprintf("FIN sent on %s at t=%.3fms although nobody closed the connection", e.Dir, float64(e.T)/1000)
					break
				}
			}
		}
		if violation == "" {
			for d := 0; d < 2; d++ {
				if v := vnet.PrefixViolation(env.Dir[d].Name, env.Dir[d].Offered, env.Dir[d].Recv); v != "" {
					violation = v
				}
			}
		}
		if violation != "" {
			env.Mu.Lock()
			for d := 0; d < 2; d++ {
				if env.Dir[d].RecvErr != nil {
					violation += fmt.Sprintf(" [%s Recv: %v at %.3fms]", env.Dir[d].Name, env.Dir[d].RecvErr, float64(env.Dir[d].RecvErrT)/1000)
				}
			}
			env.Mu.Unlock()
		}
		env.CloseBoth()
	})
	if out.Panic != "" && !out.Deadlock && violation == "" {
		violation = "panic in scenario root: " + out.Panic
	}
	if env != nil && violation != "" {
		tail = env.Trace.Tail(80)
	}
	return
}

func TestC13LivePeer(t *testing.T) {
	const unit = "TestC13LivePeer"
	rec := stats.New(t, "C13", unit)
	var rc liveCase
	if stats.ReplayCase(unit, &rc) {
		for i := 0; i < 10; i++ {
			if v, tail, _ := runC13Live(t, &rc); v != "" {
				rec.Violation(v, "live", rc)
				t.Fatalf("%s\n%s", v, strings.Join(tail, "\n"))
			}
		}
		return
	}
	if stats.ReplayMode() {
		t.Skip()
	}
	rapid.Check(t, func(rt *rapid.T) {
		c := genC13Live(rt)
		rec.Current("live", c)
		v, tail, idle := runC13Live(t, c)
		minPing := c.Client.PingMs
		if c.Server.PingMs < minPing {
			minPing = c.Server.PingMs
		}
		nt := idle > 10*ms(minPing)
		var labels []string
		if nt {
			labels = append(labels, "idle_gt_10_pings")
		}
		if idle > time.Hour {
			labels = append(labels, "idle_gt_1h")
		}
		rec.Case(nt, fmt.Sprintf("%+v", *c), labels...)
		if nt && rec.WantSample() {
			rec.Sample(c)
		}
		if v != "" {
			rec.Pending(v, "live", struct {
				*liveCase
				TraceTail []string `json:"trace_tail"`
			}{c, tail})
			rt.Fatalf("%s", v)
		}
	})
	rec.Done()
}
