package gbnprop

import (
	"context"
	"errors"
	"fmt"
	"io"
	"strings"
	"sync"
	"sync/atomic"
	"testing"
	"testing/synctest"
	"time"

	"github.com/lightninglabs/lightning-node-connect/gbn"
	"pgregory.net/rapid"

	"verif/harness/stats"
	"verif/harness/vnet"
)

// TestC12SelfClose: the connection is not closed by its application but by
// one of its own loops, which call Close on the way out: the receive loop got
// a frame it cannot decode (a damaged or foreign relay message) or a
// handshake packet in the data phase, the transport's receive function
// reported an error, or its send function failed once. "At any moment, from
// any goroutine" includes these callers, and the statement's FIN clause holds
// for them as for any other: while the direction towards the peer still works
// the peer is told, so that its calls fail instead of hanging.
//
// Reliable links, keepalive off on the peer (so that nothing but a FIN can
// make it fail), both applications read and write all the time.
type selfCloseCase struct {
	N       int             `json:"n"`
	Client  vnet.TimeoutCfg `json:"client"`
	Server  vnet.TimeoutCfg `json:"server"`
	LatMs   int             `json:"lat_ms"`
	Victim  string          `json:"victim"`  // client | server: the endpoint whose loop fails
	Trigger string          `json:"trigger"` // junk:<hex> | recv_eof | recv_err | send_err
	AtMs    int             `json:"at_ms"`
	GapMs   int             `json:"gap_ms"` // pause between the applications' Sends
	Burst   int             `json:"burst"`  // messages each application sends back to back first
	// ExtraClose: the victim's application also calls Close this many
	// milliseconds after the trigger (-1: not at all).
	ExtraClose int `json:"extra_close_ms"`
}

var junkFrames = []string{
	"",         // empty frame
	"ff",       // unknown type
	"ff0102",   // unknown type with a body
	"02",       // DATA, truncated
	"0200",     // DATA, truncated
	"020001",   // DATA, truncated (3 bytes)
	"03",       // ACK without a sequence number
	"04",       // NACK without a sequence number
	"01",       // SYN without N
	"0114",     // SYN in the data phase
	"06",       // SYNACK in the data phase
	"07",       // one beyond the last type
	"00",       // type 0
	"80000000", // high bit
}

func genC12SelfClose(t *rapid.T) *selfCloseCase {
	c := &selfCloseCase{}
	c.N = rapid.SampledFrom([]int{1, 2, 3, 20, 254}).Draw(t, "n")
	c.Client = genTimeout(0).Draw(t, "client_to")
	c.Server = genTimeout(0).Draw(t, "server_to")
	// a clean handshake and a data phase without spurious resends: the round
	// trip stays below every timeout (what happens above them is C10's and
	// C06's subject)
	minTO := 1 << 30
	for _, x := range []vnet.TimeoutCfg{c.Client, c.Server} {
		for _, d := range []time.Duration{x.InitialHandshake(), x.InitialResend()} {
			if v := int(d / time.Millisecond); v < minTO {
				minTO = v
			}
		}
	}
	latMax := (minTO - 1) / 2
	c.LatMs = rapid.SampledFrom([]int{0, 0, 1, latMax / 4, latMax}).Draw(t, "lat")
	c.Victim = rapid.SampledFrom([]string{"client", "server"}).Draw(t, "victim")
	switch rapid.IntRange(0, 5).Draw(t, "trigger") {
	case 0:
		c.Trigger = "recv_eof"
	case 1:
		c.Trigger = "recv_err"
	case 2:
		c.Trigger = "send_err"
	default:
		c.Trigger = "junk:" + rapid.SampledFrom(junkFrames).Draw(t, "junk")
	}
	c.AtMs = rapid.SampledFrom([]int{0, 1, 5, 50, 333, 1000, 2500}).Draw(t, "at")
	c.GapMs = rapid.SampledFrom([]int{1, 10, 100, 700}).Draw(t, "gap")
	c.Burst = rapid.SampledFrom([]int{0, 0, 1, c.N, c.N + 3}).Draw(t, "burst")
	if c.Burst > 60 {
		c.Burst = 60
	}
	c.ExtraClose = rapid.SampledFrom([]int{-1, -1, 0, 1, 500}).Draw(t, "extra_close")
	return c
}

// faultyTransport wraps the victim's two transport functions.
type faultyTransport struct {
	send func(context.Context, []byte) error
	recv func(context.Context) ([]byte, error)

	recvErr  atomic.Value // error: the receive function fails from now on
	recvFail chan struct{}
	sendErr  atomic.Bool // the next send fails (once)
	sendHit  atomic.Int64
	now      func() int64
}

func (f *faultyTransport) Send(ctx context.Context, b []byte) error {
	if f.sendErr.CompareAndSwap(true, false) {
		f.sendHit.Store(f.now())
		return errors.New("transport: send failed")
	}
	return f.send(ctx, b)
}

func (f *faultyTransport) Recv(ctx context.Context) ([]byte, error) {
	if e := f.recvErr.Load(); e != nil {
		return nil, e.(error)
	}
	cctx, cancel := context.WithCancel(ctx)
	defer cancel()
	stop := make(chan struct{})
	defer close(stop)
	go func() {
		select {
		case <-f.recvFail:
			cancel()
		case <-stop:
		}
	}()
	b, err := f.recv(cctx)
	if e := f.recvErr.Load(); e != nil && ctx.Err() == nil && err != nil {
		return nil, e.(error)
	}
	return b, err
}

type selfCloseResult struct {
	violation  string
	labels     []string
	tail       []string
	nontrivial bool
}

func runC12SelfClose(t *testing.T, c *selfCloseCase) (res selfCloseResult) {
	var tr *vnet.Trace
	out := vnet.InBubble(t, bubbleWatchdog, func() {
		tr = vnet.NewTrace(50000)
		c2s := vnet.NewLink("c2s", ms(c.LatMs), nil, tr)
		s2c := vnet.NewLink("s2c", ms(c.LatMs), nil, tr)
		ctx, cancel := context.WithCancel(context.Background())
		defer cancel()
		ft := &faultyTransport{recvFail: make(chan struct{}), now: tr.Now}
		cSend, cRecv := c2s.Send, s2c.Recv
		sSend, sRecv := s2c.Send, c2s.Recv
		toVictim, fromVictim := s2c, "c2s"
		if c.Victim == "client" {
			ft.send, ft.recv = cSend, cRecv
			cSend, cRecv = ft.Send, ft.Recv
		} else {
			ft.send, ft.recv = sSend, sRecv
			sSend, sRecv = ft.Send, ft.Recv
			toVictim, fromVictim = c2s, "s2c"
		}
		var (
			conns [2]*gbn.GoBackNConn
			errs  [2]error
			hs    sync.WaitGroup
		)
		hs.Add(2)
		go func() {
			defer hs.Done()
			conns[1], errs[1] = gbn.NewServerConn(ctx, sSend, sRecv, gbn.WithTimeoutOptions(c.Server.Options()...))
		}()
		go func() {
			defer hs.Done()
			conns[0], errs[0] = gbn.NewClientConn(ctx, uint8(c.N), cSend, cRecv, gbn.WithTimeoutOptions(c.Client.Options()...))
		}()
		hs.Wait()
		if errs[0] != nil || errs[1] != nil || conns[0] == nil || conns[1] == nil {
			res.labels = append(res.labels, "handshake_incomplete")
			for _, cn := range conns {
				if cn != nil {
					_ = cn.Close()
				}
			}
			return
		}
		start := time.Now()
		// applications
		var (
			mu       sync.Mutex
			recvErrT [2]time.Duration // when the blocked Recv returned an error (0: not yet)
			sendErrT [2]time.Duration
			appWG    sync.WaitGroup
		)
		for i := 0; i < 2; i++ {
			i := i
			appWG.Add(2)
			go func() {
				defer appWG.Done()
				for {
					if _, err := conns[i].Recv(); err != nil {
						mu.Lock()
						recvErrT[i] = time.Since(start) + 1
						mu.Unlock()
						return
					}
				}
			}()
			go func() {
				defer appWG.Done()
				for k := 0; ; k++ {
					if k >= c.Burst {
						time.Sleep(ms(c.GapMs))
					}
					if err := conns[i].Send(vnet.Payload('x', k, 5)); err != nil {
						mu.Lock()
						sendErrT[i] = time.Since(start) + 1
						mu.Unlock()
						return
					}
				}
			}()
		}
		time.Sleep(ms(c.AtMs))
		// the trigger
		var effective time.Duration // when the victim's loop saw it (since start)
		switch {
		case strings.HasPrefix(c.Trigger, "junk:"):
			var b []byte
			fmt.Sscanf(strings.TrimPrefix(c.Trigger, "junk:"), "%x", &b)
			toVictim.Inject(b)
			// queued behind whatever is in flight: due one latency from now at
			// the latest (FIFO, no delays on this link)
			effective = time.Since(start) + ms(c.LatMs)
		case c.Trigger == "recv_eof" || c.Trigger == "recv_err":
			var e error = io.EOF
			if c.Trigger == "recv_err" {
				e = errors.New("transport: stream broken")
			}
			ft.recvErr.Store(e)
			close(ft.recvFail)
			effective = time.Since(start)
		case c.Trigger == "send_err":
			ft.sendErr.Store(true)
			// takes effect at the victim's next transmission; the
			// applications keep sending, so there is one within a gap and a
			// round trip
			deadline := time.Now().Add(ms(2*c.GapMs+4*c.LatMs) + 10*time.Second)
			for ft.sendHit.Load() == 0 && time.Now().Before(deadline) {
				time.Sleep(time.Millisecond)
			}
			if ft.sendHit.Load() == 0 {
				res.labels = append(res.labels, "send_fault_never_hit")
				effective = -1
			} else {
				effective = time.Duration(ft.sendHit.Load())*time.Microsecond - time.Duration(0)
				effective = time.Since(start) // observed within 1 ms of the hit
			}
		}
		vi, pi := 0, 1
		if c.Victim == "server" {
			vi, pi = 1, 0
		}
		names := []string{"client", "server"}
		if c.ExtraClose >= 0 {
			appWG.Add(1)
			go func() {
				defer appWG.Done()
				time.Sleep(ms(c.ExtraClose))
				_ = conns[vi].Close()
			}()
		}
		if effective >= 0 {
			res.nontrivial = true
			// one latency for the FIN, plus slack
			time.Sleep(time.Until(start.Add(effective)) + ms(c.LatMs) + 2*closeSlack)
			synctest.Wait()
			finHanded := false
			for _, e := range tr.Snapshot() {
				if e.Ev == "recv" && e.Type == "FIN" && e.Dir == fromVictim {
					finHanded = true
				}
			}
			mu.Lock()
			vr, vs, pr, ps := recvErrT[vi], sendErrT[vi], recvErrT[pi], sendErrT[pi]
			mu.Unlock()
			_ = vs
			_ = ps
			switch {
			case vr == 0:
				res.violation = fmt.Sprintf("%s (its own loop failed: %s): Recv still blocked %v after the failure", names[vi], c.Trigger, time.Since(start)-effective)
			case !finHanded:
				res.violation = fmt.Sprintf("%s closed itself (%s) over a transport whose direction towards the peer works, but no FIN was handed to the %s within one latency + %v: the peer is not told and its calls hang",
					names[vi], c.Trigger, names[pi], 2*closeSlack)
			case pr == 0:
				res.violation = fmt.Sprintf("%s: Recv still blocked although the FIN of the %s (which closed itself: %s) was handed to it", names[pi], names[vi], c.Trigger)
			}
			// later calls on both ends fail at once
			if res.violation == "" {
				for i := 0; i < 2 && res.violation == ""; i++ {
					for _, call := range []string{"Send", "Recv"} {
						i, call := i, call
						errc := make(chan error, 1)
						go func() {
							if call == "Send" {
								errc <- conns[i].Send([]byte("late"))
							} else {
								_, err := conns[i].Recv()
								errc <- err
							}
						}()
						select {
						case err := <-errc:
							if err == nil {
								res.violation = fmt.Sprintf("%s: %s succeeded after the connection had closed itself (%s at the %s)", names[i], call, c.Trigger, names[vi])
							}
						case <-time.After(time.Second):
							res.violation = fmt.Sprintf("%s: later %s blocks after the connection had closed itself (%s at the %s)", names[i], call, c.Trigger, names[vi])
						}
					}
				}
			}
		}
		// teardown: explicit Close on both (idempotent), bounded
		for i := 0; i < 2; i++ {
			i := i
			done := make(chan struct{})
			t0 := time.Now()
			go func() { _ = conns[i].Close(); close(done) }()
			select {
			case <-done:
				if d := time.Since(t0); d > finSendTimeout+closeSlack && res.violation == "" {
					res.violation = fmt.Sprintf("%s: Close after a self-close took %v", names[i], d)
				}
			case <-time.After(10 * time.Minute):
				if res.violation == "" {
					res.violation = fmt.Sprintf("%s: Close did not return within 10 virtual minutes", names[i])
				}
				cancel()
				return
			}
		}
		cancel()
		appWG.Wait()
		time.Sleep(10 * time.Minute)
		synctest.Wait()
		if leaked := vnet.RepoGoroutines(vnet.BubbleGoroutines()); len(leaked) > 0 && res.violation == "" {
			res.violation = fmt.Sprintf("%d goroutine(s) of the connection still running 10 virtual minutes after it closed itself (%s):\n%s",
				len(leaked), c.Trigger, strings.Join(leaked, "\n\n"))
		}
	})
	if out.Panic != "" && res.violation == "" {
		if out.Deadlock {
			res.violation = "goroutines left blocked after a self-close (synctest): " + out.Panic
		} else {
			res.violation = "panic in scenario root: " + out.Panic
		}
	}
	if tr != nil && res.violation != "" {
		res.tail = tr.Tail(60)
	}
	k := c.Trigger
	if i := strings.Index(k, ":"); i > 0 {
		k = k[:i]
	}
	res.labels = append(res.labels, "trigger_"+k)
	if c.ExtraClose >= 0 {
		res.labels = append(res.labels, "application_close_too")
	}
	return
}

func TestC12SelfClose(t *testing.T) {
	const unit = "TestC12SelfClose"
	rec := stats.New(t, "C12", unit)
	var rc selfCloseCase
	if stats.ReplayCase(unit, &rc) {
		for i := 0; i < 10; i++ {
			if r := runC12SelfClose(t, &rc); r.violation != "" {
				rec.Violation(r.violation, "selfclose", rc)
				t.Fatalf("%s\n%s", r.violation, strings.Join(r.tail, "\n"))
			}
		}
		return
	}
	if stats.ReplayMode() {
		t.Skip()
	}
	defer func() { vnet.FreezeHook = nil }()
	rapid.Check(t, func(rt *rapid.T) {
		c := genC12SelfClose(rt)
		rec.Current("selfclose", c)
		closeHook, lockHook := closeHangHook(rec, "selfclose", c), mutexDeadlockHook(rec, "selfclose", c, "Close cannot complete")
		vnet.FreezeHook = func(st string) { closeHook(st); lockHook(st) }
		r := runC12SelfClose(t, c)
		rec.Case(r.nontrivial, fmt.Sprintf("%+v", *c), r.labels...)
		if r.nontrivial && rec.WantSample() {
			rec.Sample(c)
		}
		if r.violation != "" {
			rec.Pending(r.violation, "selfclose", struct {
				*selfCloseCase
				TraceTail []string `json:"trace_tail"`
			}{c, r.tail})
			rt.Fatalf("%s", r.violation)
		}
	})
	rec.Done()
}
