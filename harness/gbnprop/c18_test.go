package gbnprop

import (
	"fmt"
	"strings"
	"sync"
	"testing"
	"time"

	"github.com/lightninglabs/lightning-node-connect/gbn"
	"pgregory.net/rapid"

	"verif/harness/stats"
	"verif/harness/vnet"
)

// C18 is decided by the Go race detector (the test binary is built with
// -race; GORACE=halt_on_error=1 turns the first report into a crash that the
// driver attributes to the case being run) plus the panics / deadlocks the
// runtime itself reports. The generators below only have to make the
// interesting interleavings happen.

// extraOp is an API call made from an additional application goroutine.
type extraOp struct {
	AtMs int    `json:"at_ms"`
	Who  string `json:"who"` // client | server
	Op   string `json:"op"`  // send | recv | set_send_to | set_recv_to | close
	Arg  int    `json:"arg"`
}

type raceCase struct {
	Sc    *vnet.Scenario `json:"scenario"`
	Extra []extraOp      `json:"extra"`
}

func genC18(t *rapid.T) *raceCase {
	sc := &vnet.Scenario{}
	sc.N = rapid.SampledFrom([]int{1, 2, 3, 5, 20}).Draw(t, "n")
	// One period P for everything, so that ping ticks, pong ticks, resend
	// ticks and packet arrivals (latency = P or a divisor) land on the same
	// virtual instants.
	p := rapid.SampledFrom([]int{20, 50, 100}).Draw(t, "period")
	mk := func(label string) vnet.TimeoutCfg {
		c := vnet.TimeoutCfg{
			Static:      true,
			ResendMs:    p * rapid.SampledFrom([]int{1, 2}).Draw(t, label+"_resend"),
			HandshakeMs: p * 4,
			PingMs:      p * rapid.SampledFrom([]int{1, 2, 3}).Draw(t, label+"_ping"),
			PongMs:      p * rapid.SampledFrom([]int{1, 2}).Draw(t, label+"_pong"),
		}
		// adaptive mode exercises the booster / sample bookkeeping from both
		// loops (Sent(resent) in the send loop against Received and
		// GetResendTimeout in the receive loop)
		if rapid.Bool().Draw(t, label+"_adaptive") {
			c.Static, c.ResendMs = false, 0
			c.Mult = rapid.SampledFrom([]int{1, 5}).Draw(t, label+"_mult")
			c.Freq = rapid.SampledFrom([]int{1, 2, 200}).Draw(t, label+"_freq")
			c.BoostPct = 50
			c.PingMs = 1000 * rapid.SampledFrom([]int{1, 2}).Draw(t, label+"_ping_s")
			c.PongMs = 1000
		}
		return c
	}
	sc.Client, sc.Server = mk("client"), mk("server")
	sc.LatC2SMs = rapid.SampledFrom([]int{0, p / 2, p}).Draw(t, "lat_c2s")
	sc.LatS2CMs = rapid.SampledFrom([]int{0, p / 2, p}).Draw(t, "lat_s2c")
	// with chunking, messages are reassembled in Recv from several packets
	sc.MaxChunk = rapid.SampledFrom([]int{0, 0, 3, 8}).Draw(t, "chunk")
	sc.C2S = genMsgs(t, "c2s", 25, 32, []int{0, 0, p, 2 * p, 3 * p})
	sc.S2C = genMsgs(t, "s2c", 25, 32, []int{0, 0, p, 2 * p, 3 * p})
	delays := []int{0, p, 2 * p}
	sc.FaultsC2S = genScript(t, "f_c2s", 60, delays)
	sc.FaultsS2C = genScript(t, "f_s2c", 60, delays)
	sc.DeadlineMs = 40*p*10 + 20000
	// the hand-over of received packets to an application that is not there
	// (receive buffer full) is one more place where the two loops meet
	drawSlowReaders(t, sc, 2*p)
	c := &raceCase{Sc: sc}
	opGen := rapid.Custom(func(t *rapid.T) extraOp {
		return extraOp{
			AtMs: p * rapid.IntRange(0, 30).Draw(t, "at") / rapid.SampledFrom([]int{1, 1, 2}).Draw(t, "div"),
			Who:  rapid.SampledFrom([]string{"client", "server"}).Draw(t, "who"),
			Op:   rapid.SampledFrom([]string{"send", "send", "recv", "recv", "set_send_to", "set_recv_to", "close"}).Draw(t, "op"),
			Arg:  rapid.SampledFrom([]int{1, p, 10 * p}).Draw(t, "arg"),
		}
	})
	c.Extra = rapid.SliceOfN(opGen, 0, 12).Draw(t, "extra")
	return c
}

func runC18(t *testing.T, c *raceCase) (violation string, coincide bool) {
	sc := c.Sc
	out := vnet.InBubble(t, bubbleWatchdog, func() {
		env := vnet.NewEnv(sc)
		env.StartHandshake()
		if !env.WaitHandshake(60 * time.Second) {
			env.CloseBoth()
			return
		}
		env.ArmFaults()
		env.StartTraffic()
		start := time.Now()
		var wg sync.WaitGroup
		for _, op := range c.Extra {
			op := op
			wg.Add(1)
			go func() {
				defer wg.Done()
				time.Sleep(ms(op.AtMs) - time.Since(start))
				conn := env.Client
				if op.Who == "server" {
					conn = env.Server
				}
				switch op.Op {
				case "send":
					conn.SetSendTimeout(ms(op.Arg))
					_ = conn.Send([]byte("extra"))
				case "recv":
					// a second reader competes with the harness receiver; C18
					// only asks for race freedom, not for delivery here
					// (several calls, so that it is in Recv while chunks of a
					// split message arrive for the other reader)
					conn.SetRecvTimeout(ms(op.Arg))
					for i := 0; i < 4; i++ {
						if _, err := conn.Recv(); err != nil && !strings.Contains(err.Error(), "timed out") && !strings.Contains(err.Error(), "timeout") {
							break
						}
					}
				case "set_send_to":
					conn.SetSendTimeout(ms(op.Arg * 100))
				case "set_recv_to":
					conn.SetRecvTimeout(ms(op.Arg * 100))
				case "close":
					_ = conn.Close()
				}
			}()
		}
		env.WaitUntil(ms(sc.DeadlineMs), func() bool { return env.AllDelivered() || env.AnyFailure() })
		wg.Wait()
		env.CloseBoth()
		// a timer expiry and a packet arrival at the same virtual instant?
		arr := map[int64]bool{}
		for _, e := range env.Trace.Snapshot() {
			if e.Ev == "recv" {
				arr[e.T] = true
			}
		}
		for _, e := range env.Trace.Snapshot() {
			if e.Ev == "send" && e.Type == "DATA" && arr[e.T] && (e.Fl == "P" || e.Fl == "FP") {
				coincide = true
			}
		}
	})
	if out.Panic != "" && !out.Deadlock {
		violation = "panic in scenario root: " + out.Panic
	}
	return
}

func TestC18RaceScenarios(t *testing.T) {
	const unit = "TestC18RaceScenarios"
	rec := stats.New(t, "C18", unit)
	var rc raceCase
	if stats.ReplayCase(unit, &rc) {
		for i := 0; i < 50; i++ {
			if v, _ := runC18(t, &rc); v != "" {
				rec.Violation(v, "race_scenario", rc)
				t.Fatal(v)
			}
		}
		return
	}
	if stats.ReplayMode() {
		t.Skip()
	}
	rapid.Check(t, func(rt *rapid.T) {
		c := genC18(rt)
		rec.Current("race_scenario", c)
		vnet.FreezeHook = mutexDeadlockHook(rec, "race_scenario", c, "lock-order deadlock")
		v, co := runC18(t, c)
		var labels []string
		if co {
			labels = append(labels, "ping_and_arrival_same_instant")
		}
		if len(c.Extra) > 0 {
			labels = append(labels, "extra_api_goroutines")
		}
		rec.Case(co || len(c.Extra) > 0, fmt.Sprintf("%s|%+v", scKey(c.Sc), c.Extra), labels...)
		if rec.WantSample() {
			rec.Sample(c)
		}
		if v != "" {
			rec.Pending(v, "race_scenario", c)
			rt.Fatalf("%s", v)
		}
	})
	rec.Done()
}

// ---------- direct stress of the ticker and the timeout manager ----------

type stressCase struct {
	PingUs  int   `json:"ping_us"`
	PongUs  int   `json:"pong_us"`
	RecvOps []int `json:"recv_gaps_us"` // gaps between receive-loop style ops
	SendN   int   `json:"send_ticks"`   // ticks handled by the send-loop role
	Readers int   `json:"readers"`
	TM      []int `json:"tm_ops"` // op codes for the timeout manager goroutines
}

func runC18Stress(c *stressCase) (violation string) {
	defer func() {
		if r := recover(); r != nil {
			violation = fmt.Sprintf("panic: %v", r)
		}
	}()
	ping := gbn.NewIntervalAwareForceTicker(time.Duration(c.PingUs) * time.Microsecond)
	pong := gbn.NewIntervalAwareForceTicker(time.Duration(c.PongUs) * time.Microsecond)
	ping.Resume()
	quit := make(chan struct{})
	var wg sync.WaitGroup
	panics := make(chan string, 8)
	guard := func(f func()) {
		wg.Add(1)
		go func() {
			defer wg.Done()
			defer func() {
				if r := recover(); r != nil {
					select {
					case panics <- fmt.Sprint(r):
					default:
					}
				}
			}()
			f()
		}()
	}
	// send-loop role: exactly what sendPacketsForever does on a ping tick
	guard(func() {
		for i := 0; i < c.SendN; i++ {
			select {
			case <-quit:
				return
			case <-ping.Ticks():
				select {
				case <-pong.Ticks():
				default:
				}
				pong.Reset()
				pong.Resume()
				ping.Reset()
			case <-pong.Ticks():
			case <-time.After(5 * time.Millisecond):
			}
		}
	})
	// receive-loop role: what receivePacketsForever does for every packet
	guard(func() {
		for _, g := range c.RecvOps {
			select {
			case <-quit:
				return
			default:
			}
			if g > 0 {
				time.Sleep(time.Duration(g) * time.Microsecond)
			}
			ping.Reset()
			if pong.IsActive() {
				pong.Pause()
			}
		}
	})
	for r := 0; r < c.Readers; r++ {
		guard(func() {
			for i := 0; i < 50; i++ {
				_ = ping.NextTickIn()
				_ = ping.LastTimedTick()
				_ = pong.IsActive()
				time.Sleep(20 * time.Microsecond)
			}
		})
	}
	// timeout manager: the calls the two loops and the application make
	tm := gbn.NewTimeOutManager(nil, gbn.WithResendMultiplier(2), gbn.WithTimeoutUpdateFrequency(2),
		gbn.WithKeepalivePing(time.Second, time.Second))
	for g := 0; g < 3; g++ {
		g := g
		guard(func() {
			for i, op := range c.TM {
				seq := uint8((i + g) % 4)
				switch (op + g) % 9 {
				case 0:
					tm.Sent(&gbn.PacketData{Seq: seq}, false)
				case 1:
					tm.Sent(&gbn.PacketData{Seq: seq}, true)
				case 2:
					tm.Received(&gbn.PacketACK{Seq: seq})
				case 3:
					_ = tm.GetResendTimeout()
				case 4:
					tm.SetSendTimeout(time.Duration(i) * time.Millisecond)
					_ = tm.GetSendTimeout()
				case 5:
					tm.SetRecvTimeout(time.Duration(i) * time.Millisecond)
					_ = tm.GetRecvTimeout()
				case 6:
					tm.Sent(&gbn.PacketSYN{N: 1}, i%2 == 0)
					tm.Received(&gbn.PacketSYN{N: 1})
				case 7:
					_ = tm.GetHandshakeTimeout()
					_ = tm.GetPingTime()
				case 8:
					_ = tm.GetPongTime()
					_ = tm.GetFinSendTimeout()
				}
			}
		})
	}
	done := make(chan struct{})
	go func() { wg.Wait(); close(done) }()
	select {
	case <-done:
	case <-time.After(20 * time.Second):
		close(quit)
		return "ticker / timeout manager stress did not finish within 20s (deadlock?)"
	}
	close(quit)
	ping.Stop()
	pong.Stop()
	select {
	case p := <-panics:
		return "panic: " + p
	default:
	}
	return ""
}

func TestC18Stress(t *testing.T) {
	const unit = "TestC18Stress"
	rec := stats.New(t, "C18", unit)
	var rc stressCase
	if stats.ReplayCase(unit, &rc) {
		for i := 0; i < 20; i++ {
			if v := runC18Stress(&rc); v != "" {
				rec.Violation(v, "stress", rc)
				t.Fatal(v)
			}
		}
		return
	}
	if stats.ReplayMode() {
		t.Skip()
	}
	rapid.Check(t, func(rt *rapid.T) {
		c := &stressCase{
			PingUs:  rapid.SampledFrom([]int{50, 100, 300, 1000}).Draw(rt, "ping_us"),
			PongUs:  rapid.SampledFrom([]int{50, 100, 300, 1000}).Draw(rt, "pong_us"),
			RecvOps: rapid.SliceOfN(rapid.SampledFrom([]int{0, 0, 0, 10, 50, 100, 300}), 5, 120).Draw(rt, "recv_gaps"),
			SendN:   rapid.IntRange(1, 40).Draw(rt, "send_ticks"),
			Readers: rapid.IntRange(0, 2).Draw(rt, "readers"),
			TM:      rapid.SliceOfN(rapid.IntRange(0, 8), 0, 200).Draw(rt, "tm_ops"),
		}
		rec.Current("stress", c)
		v := runC18Stress(c)
		rec.Case(true, fmt.Sprintf("%+v", *c), "stress_two_roles")
		if rec.WantSample() {
			rec.Sample(c)
		}
		if v != "" {
			rec.Pending(v, "stress", c)
			rt.Fatalf("%s", v)
		}
	})
	rec.Done()
}
