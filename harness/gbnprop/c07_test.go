package gbnprop

import (
	"context"
	"fmt"
	"sync"
	"testing"
	"testing/synctest"
	"time"

	"github.com/lightninglabs/lightning-node-connect/gbn"
	"pgregory.net/rapid"

	"verif/harness/stats"
	"verif/harness/vnet"
)

// ---------- decoders, enumerated ----------

// TestC07EnumDecoder feeds every byte string of length 0..3 (and, for length
// 4, every string whose first byte is in a shard-dependent range) to
// gbn.Deserialize. Oracle: no panic, and (value, error) never both set.
func TestC07EnumDecoder(t *testing.T) {
	const unit = "TestC07EnumDecoder"
	rec := stats.New(t, "C07", unit)
	var rb c19Bytes
	if stats.ReplayCase(unit, &rb) {
		var b []byte
		fmt.Sscanf(rb.Hex, "%x", &b)
		if _, _, p := safeDeserialize(b); p != "" {
			v := fmt.Sprintf("gbn.Deserialize(%x) panicked: %s", b, p)
			rec.Violation(v, "bytes", rb)
			t.Fatal(v)
		}
		return
	}
	if stats.ReplayMode() {
		t.Skip()
	}
	nviol := 0
	var total, wellformed int64
	check := func(b []byte) {
		total++
		m, err, p := safeDeserialize(b)
		if err == nil && m != nil {
			wellformed++
		}
		if p != "" && nviol < 5 {
			nviol++
			rec.Violation(fmt.Sprintf("gbn.Deserialize(%x) panicked: %s", b, p), "bytes", c19Bytes{Hex: fmt.Sprintf("%x", b)})
		}
	}
	enumBytes(3, check)
	// length 4: quick tier first byte 0..7 (all packet types and one
	// unknown), thorough tier the full 2^32 split over the shards.
	lo, hi := 0, 8
	full := false
	if stats.Thorough() {
		i, n := stats.Shard()
		lo, hi = 256*i/n, 256*(i+1)/n
		full = true
	}
	b := make([]byte, 4)
	for b0 := lo; b0 < hi; b0++ {
		b[0] = byte(b0)
		for b1 := 0; b1 < 256; b1++ {
			b[1] = byte(b1)
			for b2 := 0; b2 < 256; b2++ {
				b[2] = byte(b2)
				for b3 := 0; b3 < 256; b3++ {
					b[3] = byte(b3)
					check(b)
				}
			}
		}
	}
	// Non-trivial: strings that are not a well-formed packet.
	rec.CaseN(total, total-wellformed, fmt.Sprintf("C07enum/%d-%d", lo, hi), "enum_bytes")
	rec.Sample(map[string]any{"enumerated": "all byte strings len 0..3; len 4 with first byte in range", "first_byte_range": []int{lo, hi}, "count": total, "len4_complete_over_all_shards": full})
	rec.SetExhaustive(true)
	rec.Done()
	if nviol > 0 {
		t.Fatalf("%d violations", nviol)
	}
}

// ---------- raw peer ----------

// rawPeer lets the harness play one side of a GBN conversation packet by
// packet over vnet links.
type rawPeer struct {
	out *vnet.Link // we send on it
	in  *vnet.Link // we receive from it
}

func (r *rawPeer) send(m gbn.Message) {
	b, _ := m.Serialize()
	_ = r.out.Send(context.Background(), b)
}

func (r *rawPeer) sendRaw(b []byte) { _ = r.out.Send(context.Background(), b) }

// recv returns the next packet or nil after d.
func (r *rawPeer) recv(d time.Duration) gbn.Message {
	ctx, cancel := context.WithTimeout(context.Background(), d)
	defer cancel()
	b, err := r.in.Recv(ctx)
	if err != nil {
		return nil
	}
	m, err := gbn.Deserialize(b)
	if err != nil {
		return nil
	}
	return m
}

func windowOK(w gbn.VerifWindowState) string {
	if w.S == 0 || w.Base >= w.S || w.Top >= w.S || w.Size > w.N || w.S != w.N+1 {
		return fmt.Sprintf("window bookkeeping invalid: %+v", w)
	}
	return ""
}

// ---------- all 256 SYN N values against a live server ----------

type synCase struct {
	N     int    `json:"n"`
	After string `json:"after"` // what the raw client sends after the handshake
	// Seq says where the SYN under test sits among the handshake packets the
	// raw client sends before its SYNACK: "only" (SYN n), "second" (SYN 20,
	// SYN n: arrives while the server waits for the SYNACK), "first" (SYN n,
	// SYN 20), "after_timeout" (SYN 20, wait past the handshake timeout, SYN n).
	Seq string `json:"seq,omitempty"`
}

func runC07Syn(t *testing.T, c synCase) (violation string) {
	out := vnet.InBubble(t, bubbleWatchdog, func() {
		tr := vnet.NewTrace(10000)
		c2s := vnet.NewLink("c2s", 0, nil, tr)
		s2c := vnet.NewLink("s2c", 0, nil, tr)
		peer := &rawPeer{out: c2s, in: s2c}
		ctx, cancel := context.WithCancel(context.Background())
		defer cancel()
		type res struct {
			conn *gbn.GoBackNConn
			err  error
		}
		rc := make(chan res, 1)
		go func() {
			conn, err := gbn.NewServerConn(ctx, s2c.Send, c2s.Recv,
				gbn.WithTimeoutOptions(gbn.WithStaticResendTimeout(100*time.Millisecond),
					gbn.WithHandshakeTimeout(100*time.Millisecond)))
			rc <- res{conn, err}
		}()
		lastN := c.N
		switch c.Seq {
		case "second":
			peer.send(&gbn.PacketSYN{N: 20})
			peer.recv(time.Second)
			peer.send(&gbn.PacketSYN{N: uint8(c.N)})
		case "first":
			peer.send(&gbn.PacketSYN{N: uint8(c.N)})
			peer.recv(time.Second)
			peer.send(&gbn.PacketSYN{N: 20})
			lastN = 20
		case "after_timeout":
			peer.send(&gbn.PacketSYN{N: 20})
			peer.recv(time.Second)
			time.Sleep(150 * time.Millisecond)
			peer.send(&gbn.PacketSYN{N: uint8(c.N)})
		default:
			peer.send(&gbn.PacketSYN{N: uint8(c.N)})
		}
		reply := peer.recv(time.Second)
		if syn, ok := reply.(*gbn.PacketSYN); ok && int(syn.N) != lastN && c.Seq == "" {
			violation = fmt.Sprintf("server answered SYN N=%d with SYN N=%d", c.N, syn.N)
		}
		peer.send(&gbn.PacketSYNACK{})
		var r res
		select {
		case r = <-rc:
		case <-time.After(5 * time.Second):
			cancel()
			r = <-rc
			if r.conn != nil {
				_ = r.conn.Close()
			}
			return // still waiting / retrying: allowed
		}
		if r.err != nil || r.conn == nil {
			return // failed with an error: allowed
		}
		conn := r.conn
		if v := windowOK(conn.VerifWindow()); v != "" {
			violation = fmt.Sprintf("server completed the handshake for SYN N=%d with %s", c.N, v)
			// do not exercise a connection with a zero sequence space: it
			// divides by zero
			cancel()
			return
		}
		if n := int(conn.VerifWindow().N); n != c.N && n != 20 {
			violation = fmt.Sprintf("server uses n=%d, the SYNs carried %d and 20", n, c.N)
		}
		// a short honest-looking exchange
		var wg sync.WaitGroup
		wg.Add(1)
		go func() {
			defer wg.Done()
			for i := 0; i < 3; i++ {
				if conn.Send([]byte("srv")) != nil {
					return
				}
			}
		}()
		go func() {
			for {
				if _, err := conn.Recv(); err != nil {
					return
				}
			}
		}()
		switch c.After {
		case "data":
			for i := 0; i < 4; i++ {
				peer.send(&gbn.PacketData{Seq: uint8(i), FinalChunk: true, Payload: []byte("x")})
			}
		case "acks":
			for i := 0; i < 4; i++ {
				peer.send(&gbn.PacketACK{Seq: uint8(i)})
				peer.send(&gbn.PacketNACK{Seq: uint8(255 - i)})
			}
		case "syn":
			peer.send(&gbn.PacketSYN{N: uint8(c.N)})
		case "served":
			// an honest receiver: every DATA packet of the server is
			// acknowledged; afterwards nothing may be outstanding
			for i := 0; i < 40; i++ {
				m := peer.recv(300 * time.Millisecond)
				if m == nil {
					break
				}
				if d, ok := m.(*gbn.PacketData); ok {
					peer.send(&gbn.PacketACK{Seq: d.Seq})
				}
			}
		}
		time.Sleep(time.Second)
		synctest.Wait()
		if v := windowOK(conn.VerifWindow()); v != "" && violation == "" {
			violation = fmt.Sprintf("after the exchange (SYN N=%d): %s", c.N, v)
		}
		if w := conn.VerifWindow(); c.After == "served" && violation == "" && (w.Size != 0 || w.Base != w.Top) {
			violation = fmt.Sprintf("after the exchange (SYN N=%d) every DATA packet of the server was acknowledged, but its window bookkeeping says %+v", c.N, w)
		}
		_ = conn.Close()
		cancel()
		wg.Wait()
	})
	if out.Panic != "" && !out.Deadlock && violation == "" {
		violation = "panic: " + out.Panic
	}
	return
}

func TestC07SynValues(t *testing.T) {
	const unit = "TestC07SynValues"
	rec := stats.New(t, "C07", unit)
	var rc synCase
	if stats.ReplayCase(unit, &rc) {
		if v := runC07Syn(t, rc); v != "" {
			rec.Violation(v, "syn", rc)
			t.Fatal(v)
		}
		return
	}
	if stats.ReplayMode() {
		t.Skip()
	}
	nviol := 0
	for n := 0; n < 256; n++ {
		for _, seq := range []string{"", "second", "first", "after_timeout"} {
			for _, after := range []string{"data", "acks", "syn", "served"} {
				if seq != "" && after != "data" {
					continue
				}
				c := synCase{N: n, After: after, Seq: seq}
				rec.Current("syn", c)
				v := runC07Syn(t, c)
				rec.Case(n == 0 || n >= 254 || after != "data" || seq != "", fmt.Sprintf("%+v", c), "syn_value_"+seq)
				if v != "" && nviol < 5 {
					nviol++
					rec.Violation(v, "syn", c)
				}
			}
		}
	}
	rec.Sample(synCase{N: 255, After: "data"})
	rec.SetExhaustive(true)
	rec.Done()
	if nviol > 0 {
		t.Fatalf("%d violations", nviol)
	}
}

// ---------- every ACK/NACK value against every reachable window state ----------

type winCase struct {
	N    int    `json:"n"`
	Base int    `json:"base"` // packets acknowledged before (base = Base mod s)
	Size int    `json:"size"` // outstanding packets
	Op   string `json:"op"`
	V    int    `json:"v"`
}

func runC07Window(t *testing.T, c winCase) (violation string) {
	s := c.N + 1
	out := vnet.InBubble(t, bubbleWatchdog, func() {
		tr := vnet.NewTrace(10000)
		c2s := vnet.NewLink("c2s", 0, nil, tr)
		s2c := vnet.NewLink("s2c", 0, nil, tr)
		peer := &rawPeer{out: s2c, in: c2s} // the harness plays the server
		ctx, cancel := context.WithCancel(context.Background())
		defer cancel()
		connc := make(chan *gbn.GoBackNConn, 1)
		go func() {
			conn, _ := gbn.NewClientConn(ctx, uint8(c.N), c2s.Send, s2c.Recv,
				gbn.WithTimeoutOptions(gbn.WithStaticResendTimeout(200*time.Millisecond),
					gbn.WithHandshakeTimeout(200*time.Millisecond)))
			connc <- conn
		}()
		if _, ok := peer.recv(time.Second).(*gbn.PacketSYN); !ok {
			violation = "raw server did not get a SYN"
			cancel()
			<-connc
			return
		}
		peer.send(&gbn.PacketSYN{N: uint8(c.N)})
		peer.recv(time.Second) // SYNACK
		conn := <-connc
		if conn == nil {
			violation = "client did not complete a clean handshake"
			return
		}
		go func() {
			for {
				if _, err := conn.Recv(); err != nil {
					return
				}
			}
		}()
		total := c.Base + c.Size
		sendDone := make(chan struct{})
		go func() {
			defer close(sendDone)
			for i := 0; i < total+2; i++ { // two more so that Send is blocked / data keeps coming
				if conn.Send([]byte{byte(i)}) != nil {
					return
				}
			}
		}()
		// acknowledge the first Base packets in order, withhold the rest
		got := 0
		for got < total {
			m := peer.recv(50 * time.Millisecond)
			d, ok := m.(*gbn.PacketData)
			if !ok {
				if m == nil {
					break
				}
				continue
			}
			if int(d.Seq) == got%s {
				if got < c.Base {
					peer.send(&gbn.PacketACK{Seq: d.Seq})
				}
				got++
			}
		}
		synctest.Wait()
		w := conn.VerifWindow()
		// reachable state check (best effort: the sender may already have
		// put further packets into freed slots)
		_ = w
		// the hostile packet
		if c.Op == "ack" {
			peer.send(&gbn.PacketACK{Seq: uint8(c.V)})
		} else {
			peer.send(&gbn.PacketNACK{Seq: uint8(c.V)})
		}
		synctest.Wait()
		if v := windowOK(conn.VerifWindow()); v != "" {
			violation = fmt.Sprintf("%+v right after the packet: %s", c, v)
			cancel()
			return
		}
		// let the connection run on: the resend timer fires, retransmissions
		// and further sends happen
		deadline := time.Now().Add(1500 * time.Millisecond)
		for time.Now().Before(deadline) {
			m := peer.recv(100 * time.Millisecond)
			if d, ok := m.(*gbn.PacketData); ok {
				_ = d
			}
			if v := windowOK(conn.VerifWindow()); v != "" {
				violation = fmt.Sprintf("%+v while running on: %s", c, v)
				cancel()
				return
			}
		}
		_ = conn.Close()
		cancel()
		<-sendDone
	})
	if out.Panic != "" && !out.Deadlock && violation == "" {
		violation = "panic: " + out.Panic
	}
	return
}

func TestC07WindowInjection(t *testing.T) {
	const unit = "TestC07WindowInjection"
	rec := stats.New(t, "C07", unit)
	var rc winCase
	if stats.ReplayCase(unit, &rc) {
		if v := runC07Window(t, rc); v != "" {
			rec.Violation(v, "window_injection", rc)
			t.Fatal(v)
		}
		return
	}
	if stats.ReplayMode() {
		t.Skip()
	}
	nviol := 0
	ns := []int{1, 2, 3}
	if stats.Thorough() {
		ns = []int{1, 2, 3, 4}
	}
	shard, shards := stats.Shard()
	idx := 0
	for _, n := range ns {
		s := n + 1
		for base := 0; base < s; base++ {
			for size := 0; size <= n; size++ {
				for _, op := range []string{"ack", "nack"} {
					for v := 0; v < 256; v++ {
						idx++
						if idx%shards != shard {
							continue
						}
						c := winCase{N: n, Base: base, Size: size, Op: op, V: v}
						rec.Current("window_injection", c)
						viol := runC07Window(t, c)
						rec.Case(v >= s || inWindow(s, base%s, size, v), fmt.Sprintf("%+v", c), "window_injection")
						if viol != "" && nviol < 5 {
							nviol++
							rec.Violation(viol, "window_injection", c)
						}
					}
				}
			}
		}
	}
	rec.Sample(winCase{N: 3, Base: 3, Size: 2, Op: "nack", V: 200})
	rec.SetExhaustive(true)
	rec.Done()
	if nviol > 0 {
		t.Fatalf("%d violations", nviol)
	}
}

// ---------- arbitrary bytes at any phase (rapid) ----------

type junkCase struct {
	N       int      `json:"n"`
	Role    string   `json:"role"`  // which side is the code under test: client | server
	Phase   string   `json:"phase"` // pre | mid_handshake | data
	Packets []string `json:"packets_hex"`
	GapsMs  []int    `json:"gaps_ms"`
}

func runC07Junk(t *testing.T, c *junkCase) (violation string) {
	out := vnet.InBubble(t, bubbleWatchdog, func() {
		sc := &vnet.Scenario{N: c.N,
			Client: vnet.TimeoutCfg{Static: true, ResendMs: 100, HandshakeMs: 100, PingMs: 300, PongMs: 100},
			Server: vnet.TimeoutCfg{Static: true, ResendMs: 100, HandshakeMs: 100, PingMs: 300, PongMs: 100}}
		for i := 0; i < 6; i++ {
			sc.C2S = append(sc.C2S, vnet.Msg{Len: 5, GapMs: 20})
			sc.S2C = append(sc.S2C, vnet.Msg{Len: 5, GapMs: 20})
		}
		env := vnet.NewEnv(sc)
		victim := env.S2C // packets towards the client
		if c.Role == "server" {
			victim = env.C2S
		}
		inject := func() {
			for i, h := range c.Packets {
				if i < len(c.GapsMs) && c.GapsMs[i] > 0 {
					time.Sleep(ms(c.GapsMs[i]))
				}
				var b []byte
				fmt.Sscanf(h, "%x", &b)
				victim.Inject(b)
			}
		}
		if c.Phase == "pre" {
			inject()
		}
		env.StartHandshake()
		if c.Phase == "mid_handshake" {
			go inject()
		}
		ok := env.WaitHandshake(20 * time.Second)
		if ok {
			for name, conn := range map[string]*gbn.GoBackNConn{"client": env.Client, "server": env.Server} {
				if v := windowOK(conn.VerifWindow()); v != "" {
					violation = name + " after handshake: " + v
					env.CancelC()
					env.CancelS()
					return
				}
			}
			env.StartTraffic()
			if c.Phase == "data" {
				inject()
			}
			time.Sleep(2 * time.Second)
			for name, conn := range map[string]*gbn.GoBackNConn{"client": env.Client, "server": env.Server} {
				if v := windowOK(conn.VerifWindow()); v != "" && violation == "" {
					violation = name + " during data phase: " + v
				}
			}
		}
		env.CloseBoth()
	})
	if out.Panic != "" && !out.Deadlock && violation == "" {
		violation = "panic: " + out.Panic
	}
	return
}

func TestC07Junk(t *testing.T) {
	const unit = "TestC07Junk"
	rec := stats.New(t, "C07", unit)
	var rc junkCase
	if stats.ReplayCase(unit, &rc) {
		for i := 0; i < 10; i++ {
			if v := runC07Junk(t, &rc); v != "" {
				rec.Violation(v, "junk", rc)
				t.Fatal(v)
			}
		}
		return
	}
	if stats.ReplayMode() {
		t.Skip()
	}
	pktGen := rapid.OneOf(
		// well-typed packets with arbitrary fields
		rapid.Custom(func(t *rapid.T) string {
			typ := rapid.SampledFrom([]byte{1, 2, 3, 4, 5, 6}).Draw(t, "type")
			tail := rapid.SliceOfN(rapid.Byte(), 0, 6).Draw(t, "tail")
			return fmt.Sprintf("%x", append([]byte{typ}, tail...))
		}),
		// hostile constants
		rapid.SampledFrom([]string{"", "02", "0200", "020000", "02ff0000", "01ff", "0100", "03ff", "04ff", "0400", "05", "06", "ff", "00", "0101", "02000101"}),
		// raw
		rapid.Custom(func(t *rapid.T) string {
			return fmt.Sprintf("%x", rapid.SliceOfN(rapid.Byte(), 0, 40).Draw(t, "raw"))
		}),
	)
	rapid.Check(t, func(rt *rapid.T) {
		c := &junkCase{
			N:       rapid.SampledFrom([]int{1, 2, 3, 20, 254}).Draw(rt, "n"),
			Role:    rapid.SampledFrom([]string{"client", "server"}).Draw(rt, "role"),
			Phase:   rapid.SampledFrom([]string{"pre", "mid_handshake", "data", "data"}).Draw(rt, "phase"),
			Packets: rapid.SliceOfN(pktGen, 1, 8).Draw(rt, "packets"),
		}
		for range c.Packets {
			c.GapsMs = append(c.GapsMs, rapid.SampledFrom([]int{0, 0, 1, 50, 100, 150}).Draw(rt, "gap"))
		}
		rec.Current("junk", c)
		v := runC07Junk(t, c)
		rec.Case(true, fmt.Sprintf("%+v", *c), "junk_"+c.Phase)
		if rec.WantSample() {
			rec.Sample(c)
		}
		if v != "" {
			rec.Pending(v, "junk", c)
			rt.Fatalf("%s", v)
		}
	})
	rec.Done()
}

func FuzzC07Deserialize(f *testing.F) {
	for _, s := range [][]byte{{1, 20}, {2, 0, 1, 0, 'h'}, {2}, {2, 0}, {2, 0, 0}, {3}, {4}, {1}, {1, 255}, {}} {
		f.Add(s)
	}
	f.Fuzz(func(t *testing.T, b []byte) {
		if _, _, p := safeDeserialize(b); p != "" {
			t.Fatalf("gbn.Deserialize(%x) panicked: %s", b, p)
		}
	})
}

// ---------- ACK/NACK delivered in the middle of a retransmission round ----------

// midResendCase: as winCase, but the hostile ACK/NACK reaches the sender
// while it is retransmitting its window: the transport takes a millisecond to
// accept the K-th retransmitted packet (a relay that is slow to take a
// message), and the relay delivers the hostile packet in that millisecond, so
// the receive loop processes it between two packets of the resend loop.
type midResendCase struct {
	N    int    `json:"n"`
	Base int    `json:"base"`
	Size int    `json:"size"` // outstanding packets (>= 2)
	Op   string `json:"op"`
	V    int    `json:"v"`
	K    int    `json:"k"` // the hostile packet arrives while the K-th retransmitted packet is being accepted
}

func runC07MidResend(t *testing.T, c midResendCase) (violation string) {
	s := c.N + 1
	out := vnet.InBubble(t, bubbleWatchdog, func() {
		tr := vnet.NewTrace(10000)
		c2s := vnet.NewLink("c2s", 0, nil, tr)
		s2c := vnet.NewLink("s2c", 0, nil, tr)
		peer := &rawPeer{out: s2c, in: c2s}
		ctx, cancel := context.WithCancel(context.Background())
		defer cancel()
		var (
			mu      sync.Mutex
			seen    = map[string]bool{}
			retrans int
			fired   bool
		)
		slowSend := func(sctx context.Context, b []byte) error {
			if typ, _, _ := vnet.Describe(b); typ == "DATA" {
				mu.Lock()
				key := string(b)
				hit := false
				if seen[key] {
					if retrans == c.K && !fired {
						fired, hit = true, true
					}
					retrans++
				}
				seen[key] = true
				mu.Unlock()
				if hit {
					if c.Op == "ack" {
						peer.send(&gbn.PacketACK{Seq: uint8(c.V)})
					} else {
						peer.send(&gbn.PacketNACK{Seq: uint8(c.V)})
					}
					// the transport is slow to accept this packet; meanwhile
					// the receive loop gets the packet above
					time.Sleep(time.Millisecond)
				}
			}
			return c2s.Send(sctx, b)
		}
		connc := make(chan *gbn.GoBackNConn, 1)
		go func() {
			conn, _ := gbn.NewClientConn(ctx, uint8(c.N), slowSend, s2c.Recv,
				gbn.WithTimeoutOptions(gbn.WithStaticResendTimeout(200*time.Millisecond),
					gbn.WithHandshakeTimeout(200*time.Millisecond)))
			connc <- conn
		}()
		if _, ok := peer.recv(time.Second).(*gbn.PacketSYN); !ok {
			violation = "raw server did not get a SYN"
			cancel()
			<-connc
			return
		}
		peer.send(&gbn.PacketSYN{N: uint8(c.N)})
		peer.recv(time.Second) // SYNACK
		conn := <-connc
		if conn == nil {
			violation = "client did not complete a clean handshake"
			return
		}
		go func() {
			for {
				if _, err := conn.Recv(); err != nil {
					return
				}
			}
		}()
		total := c.Base + c.Size
		sendDone := make(chan struct{})
		go func() {
			defer close(sendDone)
			for i := 0; i < total+2; i++ {
				if conn.Send([]byte{byte(i), 0xAA}) != nil {
					return
				}
			}
		}()
		got := 0
		for got < total {
			m := peer.recv(50 * time.Millisecond)
			d, ok := m.(*gbn.PacketData)
			if !ok {
				if m == nil {
					break
				}
				continue
			}
			if int(d.Seq) == got%s {
				if got < c.Base {
					peer.send(&gbn.PacketACK{Seq: d.Seq})
				}
				got++
			}
		}
		synctest.Wait()
		// the resend timer (200 ms) starts the retransmission round in which
		// the hostile packet is delivered; then the connection runs on
		deadline := time.Now().Add(2 * time.Second)
		for time.Now().Before(deadline) {
			peer.recv(100 * time.Millisecond)
			if v := windowOK(conn.VerifWindow()); v != "" {
				violation = fmt.Sprintf("%+v: %s", c, v)
				cancel()
				return
			}
		}
		_ = conn.Close()
		cancel()
		<-sendDone
	})
	if out.Panic != "" && !out.Deadlock && violation == "" {
		violation = "panic: " + out.Panic
	}
	return
}

func TestC07MidResend(t *testing.T) {
	const unit = "TestC07MidResend"
	rec := stats.New(t, "C07", unit)
	var rc midResendCase
	if stats.ReplayCase(unit, &rc) {
		if v := runC07MidResend(t, rc); v != "" {
			rec.Violation(v, "mid_resend", rc)
			t.Fatal(v)
		}
		return
	}
	if stats.ReplayMode() {
		t.Skip()
	}
	nviol := 0
	ns := []int{2, 3, 4}
	if stats.Thorough() {
		ns = []int{2, 3, 4, 5, 6}
	}
	shard, shards := stats.Shard()
	idx := 0
	for _, n := range ns {
		s := n + 1
		for base := 0; base < s; base++ {
			for size := 2; size <= n; size++ {
				for _, op := range []string{"ack", "nack"} {
					vals := []int{255}
					for v := 0; v <= s; v++ {
						vals = append(vals, v)
					}
					for _, v := range vals {
						for k := 0; k < size; k++ {
							idx++
							if idx%shards != shard {
								continue
							}
							c := midResendCase{N: n, Base: base, Size: size, Op: op, V: v, K: k}
							rec.Current("mid_resend", c)
							viol := runC07MidResend(t, c)
							rec.Case(true, fmt.Sprintf("%+v", c), "ack_or_nack_between_two_retransmitted_packets")
							if viol != "" && nviol < 5 {
								nviol++
								rec.Violation(viol, "mid_resend", c)
							}
						}
					}
				}
			}
		}
	}
	rec.Sample(midResendCase{N: 3, Base: 1, Size: 3, Op: "nack", V: 0, K: 1})
	rec.SetExhaustive(true)
	rec.Done()
	if nviol > 0 {
		t.Fatalf("%d violations", nviol)
	}
}

// TestC07QueueWithAPast: every ACK/NACK value (0..255) against every window
// state (base, size) of small sequence spaces, reached after one or two full
// trips round the sequence space (every slot of the retransmission buffer has
// held a packet before; the first lap is TestC07WindowInjection's and C09's
// ground). The bookkeeping must stay consistent with what is really
// outstanding: base and top inside the space, the base only moves within
// [old base, old top], values outside the window change nothing.
func TestC07QueueWithAPast(t *testing.T) {
	const unit = "TestC07QueueWithAPast"
	rec := stats.New(t, "C07", unit)
	var rc qCase
	if stats.ReplayCase(unit, &rc) {
		if v := checkQueueOp(rc); v != "" {
			rec.Violation(v, "queue_with_a_past", rc)
			t.Fatal(v)
		}
		return
	}
	if stats.ReplayMode() {
		t.Skip()
	}
	nviol := 0
	for s := 2; s <= 6; s++ {
		for laps := 1; laps <= 2; laps++ {
			for base := 0; base < s; base++ {
				for size := 0; size <= s-1; size++ {
					for _, op := range []string{"ack", "nack"} {
						for v := 0; v < 256; v++ {
							c := qCase{S: s, Base: base, Size: size, Op: op, V: v, Laps: laps}
							rec.Case(true, fmt.Sprintf("%+v", c), "state_reached_after_full_laps")
							if viol := checkQueueOp(c); viol != "" {
								if nviol < 5 {
									rec.Violation(viol, "queue_with_a_past", c)
								}
								nviol++
							}
						}
					}
				}
			}
		}
	}
	rec.Sample(qCase{S: 4, Base: 2, Size: 0, Op: "ack", V: 2, Laps: 1})
	rec.SetExhaustive(true)
	rec.Done()
	if nviol > 0 {
		t.Fatalf("%d violations", nviol)
	}
}
