package gbnprop

import (
	"fmt"
	"strings"
	"sync"
	"testing"
	"time"

	"github.com/lightninglabs/lightning-node-connect/gbn"
	"pgregory.net/rapid"

	"verif/harness/stats"
	"verif/harness/vnet"
)

// ---------- reference model on unbounded integers ----------

// inWindow reports whether v is one of the `size` sequence numbers starting at
// base in the cyclic space of size s.
func inWindow(s, base, size, v int) bool {
	if v >= s {
		return false
	}
	return ((v-base)%s+s)%s < size
}

type qCase struct {
	S    int    `json:"s"`
	Base int    `json:"base"`
	Size int    `json:"size"`
	Op   string `json:"op"` // ack | nack
	V    int    `json:"v"`
	// Laps: full trips round the sequence space (every packet acknowledged)
	// made before the state is built, so that every slot of the
	// retransmission buffer has been used before.
	Laps int `json:"laps,omitempty"`
}

// buildQueue constructs a queue in state (base, base+size) through the same
// calls the connection makes (addPacket, processACK).
func buildQueue(s, base, size int, laps ...int) (q *gbn.VerifQueue, err string) {
	defer func() {
		if r := recover(); r != nil {
			err = fmt.Sprintf("panic while constructing state: %v", r)
		}
	}()
	q = gbn.VerifNewQueue(uint8(s))
	if len(laps) > 0 {
		for i := 0; i < laps[0]*s; i++ {
			seq := q.Add(&gbn.PacketData{})
			q.ProcessACK(seq)
		}
	}
	for i := 0; i < base; i++ {
		seq := q.Add(&gbn.PacketData{})
		q.ProcessACK(seq)
	}
	for i := 0; i < size; i++ {
		q.Add(&gbn.PacketData{})
	}
	if int(q.Base()) != base%s || int(q.Top()) != (base+size)%s || int(q.Size()) != size {
		return q, fmt.Sprintf("construction reached base=%d top=%d size=%d, wanted base=%d top=%d size=%d",
			q.Base(), q.Top(), q.Size(), base%s, (base+size)%s, size)
	}
	return q, ""
}

// checkQueueOp applies one ACK/NACK value to a freshly built state and checks
// the window invariants of C09 (and C07) on the post-state.
func checkQueueOp(c qCase) (violation string) {
	defer func() {
		if r := recover(); r != nil {
			violation = fmt.Sprintf("%+v: panic: %v", c, r)
		}
	}()
	s, n := c.S, c.S-1
	q, cerr := buildQueue(s, c.Base, c.Size, c.Laps)
	if q != nil {
		defer q.Stop()
	}
	if cerr != "" {
		return fmt.Sprintf("%+v: %s", c, cerr)
	}
	top := (c.Base + c.Size) % s
	var ret, bumped bool
	if c.Op == "ack" {
		ret = q.ProcessACK(uint8(c.V))
	} else {
		ret, bumped = q.ProcessNACK(uint8(c.V))
	}
	nb, nt, ns := int(q.Base()), int(q.Top()), int(q.Size())
	fail := func(f string, a ...any) string {
		return fmt.Sprintf("%+v -> base=%d top=%d size=%d ret=%v/%v: %s", c, nb, nt, ns, ret, bumped, fmt.Sprintf(f, a...))
	}
	if nb >= s || nt >= s {
		return fail("window bookkeeping left the sequence space [0,%d)", s)
	}
	if ns > n {
		return fail("size %d exceeds the window %d", ns, n)
	}
	if nt != top {
		return fail("top changed from %d", top)
	}
	adv := ((nb-c.Base)%s + s) % s
	if adv > c.Size {
		return fail("base moved outside [old base, old top] (advanced by %d with %d outstanding)", adv, c.Size)
	}
	if ns != c.Size-adv {
		return fail("size inconsistent with base movement")
	}
	in := inWindow(s, c.Base, c.Size, c.V)
	if c.V < s && !in && !(c.Op == "nack" && c.V == top) {
		// A value of the sequence space that is not outstanding (a stale
		// duplicate) must not acknowledge anything.
		if adv != 0 {
			return fail("a value outside the window moved the base")
		}
	}
	if c.Op == "ack" && c.Size > 0 && c.V == c.Base && adv < 1 {
		return fail("ACK of the window base freed no slot")
	}
	if c.Op == "ack" && ret && adv == 0 {
		return fail("ACK reported as valid but freed nothing")
	}
	for i := 0; i < ns; i++ {
		if q.ContentNil((nb + i) % s) {
			return fail("slot %d inside the window is empty", (nb+i)%s)
		}
	}
	return ""
}

// TestC09EnumQueue enumerates, for every sequence space s in 2..10 and a grid
// for s=255, every reachable (base, size) and every one of the 256 ACK and 256
// NACK values.
func TestC09EnumQueue(t *testing.T) {
	const unit = "TestC09EnumQueue"
	rec := stats.New(t, "C09", unit)
	var rc qCase
	if stats.ReplayCase(unit, &rc) {
		if v := checkQueueOp(rc); v != "" {
			rec.Violation(v, "queue_op", rc)
			t.Fatal(v)
		}
		return
	}
	if stats.ReplayMode() {
		t.Skip()
	}
	nviol := 0
	known := map[string]bool{}
	run := func(c qCase) {
		in := inWindow(c.S, c.Base, c.Size, c.V)
		nt := in || c.V >= c.S || c.V == (c.Base+c.Size)%c.S
		lab := "outside"
		if in {
			lab = "in_window"
		} else if c.V >= c.S {
			lab = "ge_s"
		}
		if c.Base+c.Size >= c.S {
			lab += "_wrapped"
		}
		if c.Laps > 0 {
			lab += "_after_a_lap"
		}
		rec.Case(nt, fmt.Sprintf("%d/%d/%d/%s/%d/%d", c.S, c.Base, c.Size, c.Op, c.V, c.Laps), lab)
		if v := checkQueueOp(c); v != "" {
			if nviol < 8 && !known[v[:10]] {
				rec.Violation(v, "queue_op", c)
			}
			nviol++
		}
	}
	for s := 2; s <= 10; s++ {
		for base := 0; base < s; base++ {
			for size := 0; size <= s-1; size++ {
				for v := 0; v < 256; v++ {
					run(qCase{S: s, Base: base, Size: size, Op: "ack", V: v})
					run(qCase{S: s, Base: base, Size: size, Op: "nack", V: v})
					// the same state reached after a full trip round the
					// sequence space
					run(qCase{S: s, Base: base, Size: size, Op: "ack", V: v, Laps: 1})
					run(qCase{S: s, Base: base, Size: size, Op: "nack", V: v, Laps: 1})
				}
			}
		}
	}
	grid := []int{0, 1, 2, 127, 128, 253, 254}
	for _, base := range grid {
		for _, size := range grid {
			for v := 0; v < 256; v++ {
				run(qCase{S: 255, Base: base, Size: size, Op: "ack", V: v})
				run(qCase{S: 255, Base: base, Size: size, Op: "nack", V: v})
			}
		}
	}
	rec.Sample(qCase{S: 4, Base: 3, Size: 2, Op: "nack", V: 200})
	rec.Sample(qCase{S: 255, Base: 254, Size: 127, Op: "ack", V: 3})
	// containsSequence against cyclic-interval membership, all triples inside
	// the sequence space.
	var triples, bad int64
	for s := 2; s <= 10; s++ {
		for base := 0; base < s; base++ {
			for top := 0; top < s; top++ {
				size := ((top-base)%s + s) % s
				for v := 0; v < s; v++ {
					triples++
					if gbn.VerifContainsSequence(uint8(base), uint8(top), uint8(v)) != inWindow(s, base, size, v) {
						bad++
						if bad < 3 {
							rec.Violation(fmt.Sprintf("containsSequence(base=%d, top=%d, seq=%d) in space %d disagrees with cyclic membership", base, top, v, s),
								"contains", map[string]int{"s": s, "base": base, "top": top, "v": v})
						}
					}
				}
			}
		}
	}
	rec.CaseN(triples, triples, "C09containsSequence", "contains_sequence_triple")
	rec.SetExhaustive(true)
	rec.Done()
	if nviol > 0 || bad > 0 {
		t.Fatalf("%d queue violations, %d containsSequence disagreements", nviol, bad)
	}
}

// TestC09RapidQueue: random s in 2..255, random reachable state, all kinds of values.
func TestC09RapidQueue(t *testing.T) {
	const unit = "TestC09RapidQueue"
	rec := stats.New(t, "C09", unit)
	var rc qCase
	if stats.ReplayCase(unit, &rc) {
		if v := checkQueueOp(rc); v != "" {
			rec.Violation(v, "queue_op", rc)
			t.Fatal(v)
		}
		return
	}
	if stats.ReplayMode() {
		t.Skip()
	}
	rapid.Check(t, func(rt *rapid.T) {
		s := rapid.IntRange(2, 255).Draw(rt, "s")
		c := qCase{S: s,
			Base: rapid.IntRange(0, s-1).Draw(rt, "base"),
			Size: rapid.IntRange(0, s-1).Draw(rt, "size"),
			Op:   rapid.SampledFrom([]string{"ack", "nack"}).Draw(rt, "op"),
			V:    rapid.IntRange(0, 255).Draw(rt, "v"),
			Laps: rapid.SampledFrom([]int{0, 0, 1, 2}).Draw(rt, "laps")}
		in := inWindow(c.S, c.Base, c.Size, c.V)
		rec.Case(in || c.V >= s, fmt.Sprintf("%+v", c), map[bool]string{true: "in_window", false: "outside"}[in])
		if v := checkQueueOp(c); v != "" {
			rec.Pending(v, "queue_op", c)
			rt.Fatalf("%s", v)
		}
	})
	rec.Done()
}

// ---------- dynamic window monitor ----------

// windowMonitor tracks, per sending direction, a lower bound on the number of
// outstanding DATA packets: first transmissions minus everything that the
// ACK/NACKs already handed to the sender's recvFunc could possibly have
// acknowledged (most generous cumulative reading). The sender's own count can
// only be larger, so lower bound > N proves the window was exceeded.
type windowMonitor struct {
	mu   sync.Mutex
	s    int
	base [2]int64 // unbounded
	top  [2]int64
	peak [2]int64
	full [2]int // number of times outstanding reached N
	viol string
	// lastNew is the time of the last first transmission per sending
	// direction, lastRecv the time the last packet was handed over on a link.
	lastNew  [2]int64
	lastRecv [2]int64
	// lastNewPing is the time of the last first transmission of a keepalive
	// ping per sending direction (0 if none).
	lastNewPing [2]int64
	// cumAck counts ACKs that acknowledged more than the window base (an
	// earlier ACK was lost), nackBump NACKs that moved the base.
	cumAck, nackBump int
}

// noNewSince reports whether the endpoint sending on direction d has made no
// first transmission after instant t (virtual us). Together with a window that
// is still full this means its send loop has been in the window-full wait
// since before t: the window only grows by first transmissions.
func (w *windowMonitor) noNewSince(d int, t int64) bool {
	w.mu.Lock()
	defer w.mu.Unlock()
	return w.lastNew[d] <= t
}

// pingOutstanding reports whether the endpoint sending on direction d has
// sent a new keepalive ping strictly after the last packet that was handed to
// it, i.e. whether its pong timer is armed: the timer is started by a new
// ping and paused by any received packet.
func (w *windowMonitor) pingOutstanding(d int) bool {
	w.mu.Lock()
	defer w.mu.Unlock()
	return w.lastNewPing[d] > 0 && w.lastNewPing[d]-1 > w.lastRecv[1-d]
}

func dirIdx(d string) int {
	if d == "c2s" {
		return 0
	}
	return 1
}

func (w *windowMonitor) observe(e vnet.TraceEvent) {
	w.mu.Lock()
	defer w.mu.Unlock()
	s := int64(w.s)
	if e.Ev == "recv" {
		w.lastRecv[dirIdx(e.Dir)] = e.T
	}
	switch {
	case e.Ev == "send" && e.Type == "DATA":
		d := dirIdx(e.Dir)
		if int64(e.Seq) == w.top[d]%s {
			w.lastNew[d] = e.T
			if strings.Contains(e.Fl, "P") {
				w.lastNewPing[d] = e.T + 1
			}
			w.top[d]++
			out := w.top[d] - w.base[d]
			if out > w.peak[d] {
				w.peak[d] = out
			}
			if out == s-1 {
				w.full[d]++
			}
			if out > s-1 && w.viol == "" {
				w.viol = fmt.Sprintf("%s: %d DATA packets outstanding (first transmissions %d, at most %d acknowledged by packets handed to the sender) with N=%d at t=%.3fms",
					e.Dir, out, w.top[d], w.base[d], s-1, float64(e.T)/1000)
			}
		}
	case e.Ev == "recv" && (e.Type == "ACK" || e.Type == "NACK"):
		// An ACK travelling on direction X acknowledges DATA of the opposite
		// direction.
		d := 1 - dirIdx(e.Dir)
		size := w.top[d] - w.base[d]
		v := int64(e.Seq)
		if v >= s {
			return
		}
		off := ((v-w.base[d]%s)%s + s) % s
		if e.Type == "ACK" {
			if off < size {
				if off > 0 {
					w.cumAck++
				}
				w.base[d] += off + 1
			}
		} else {
			if v == w.top[d]%s {
				if size > 0 {
					w.nackBump++
				}
				w.base[d] = w.top[d]
			} else if off < size {
				if off > 0 {
					w.nackBump++
				}
				w.base[d] += off
			}
		}
	}
}

func genC09Dynamic(t *rapid.T) *vnet.Scenario {
	sc := &vnet.Scenario{}
	sc.N = genN().Draw(t, "n")
	sc.Client = genTimeout(1).Draw(t, "client_to")
	sc.Server = genTimeout(1).Draw(t, "server_to")
	minResend := int(sc.Client.InitialResend() / time.Millisecond)
	if r := int(sc.Server.InitialResend() / time.Millisecond); r < minResend {
		minResend = r
	}
	sc.LatC2SMs = rapid.SampledFrom([]int{0, 1, minResend / 4, minResend / 2, minResend - 1}).Draw(t, "lat_c2s")
	sc.LatS2CMs = rapid.SampledFrom([]int{0, 1, minResend / 4, minResend / 2, minResend - 1}).Draw(t, "lat_s2c")
	// Back-to-back bursts so that the window fills.
	cnt := 2*sc.N + 10
	if cnt > 150 {
		cnt = 150
	}
	sc.MaxChunk = rapid.SampledFrom([]int{0, 0, 1, 8}).Draw(t, "chunk")
	maxLen := 16
	if sc.MaxChunk > 0 {
		maxLen = sc.MaxChunk * 40
	}
	sc.C2S = genMsgs(t, "c2s", cnt, maxLen, []int{0, 0, 0, 0, 0, 1, 200})
	sc.S2C = genMsgs(t, "s2c", cnt, maxLen, []int{0, 0, 0, 0, 0, 1, 200})
	delays := []int{0, 1, minResend / 2, minResend, 2 * minResend}
	sc.FaultsC2S = genScript(t, "f_c2s", 200, delays)
	sc.FaultsS2C = genScript(t, "f_s2c", 200, delays)
	sc.DeadlineMs = 300000
	// a receiving application that pauses: the peer's window stays full for
	// several resend rounds
	drawSlowReaders(t, sc, 2*minResend)
	// a transport whose send function fails once (the connection may give
	// up, but it must not lose count): in a burst almost every packet is the
	// one that fills the window again
	if rapid.IntRange(0, 4).Draw(t, "send_fails") == 0 {
		at := rapid.IntRange(0, 3*sc.N+20).Draw(t, "fail_at")
		put := func(script []vnet.Decision) []vnet.Decision {
			for len(script) <= at {
				script = append(script, vnet.Decision{Kind: vnet.Deliver})
			}
			script[at] = vnet.Decision{Kind: vnet.Fail}
			return script
		}
		if rapid.Bool().Draw(t, "fail_dir") {
			sc.FaultsC2S = put(sc.FaultsC2S)
		} else {
			sc.FaultsS2C = put(sc.FaultsS2C)
		}
	}
	return sc
}

func runC09Dynamic(t *testing.T, sc *vnet.Scenario) (violation string, tail []string, labels []string, nontrivial bool) {
	var env *vnet.Env
	mon := &windowMonitor{s: sc.N + 1}
	hookViol := ""
	out := vnet.InBubble(t, bubbleWatchdog, func() {
		env = vnet.NewEnv(sc)
		env.Trace.Observers = append(env.Trace.Observers, mon.observe)
		env.StartHandshake()
		if !env.WaitHandshake(120 * time.Second) {
			labels = append(labels, "handshake_incomplete")
			env.CloseBoth()
			return
		}
		// negotiated window: both ends must use s = N+1 > N
		for name, c := range map[string]*gbn.GoBackNConn{"client": env.Client, "server": env.Server} {
			w := c.VerifWindow()
			if int(w.N) != sc.N || int(w.S) != sc.N+1 {
				hookViol = fmt.Sprintf("%s negotiated n=%d s=%d, client proposed N=%d (sequence space must be N+1)", name, w.N, w.S, sc.N)
			}
		}
		// Sample the endpoints' own bookkeeping at every packet event.
		env.Trace.Observers = append(env.Trace.Observers, func(e vnet.TraceEvent) {
			if e.Ev != "send" || hookViol != "" {
				return
			}
			c := env.Client
			if e.Dir == "s2c" {
				c = env.Server
			}
			w := c.VerifWindow()
			if w.Base >= w.S || w.Top >= w.S || w.Size > w.N {
				hookViol = fmt.Sprintf("%s sender bookkeeping out of range: %+v at t=%.3fms", e.Dir, w, float64(e.T)/1000)
			}
		})
		env.ArmFaults()
		env.StartTraffic()
		env.WaitUntil(ms(sc.DeadlineMs), func() bool { return env.AllDelivered() || env.AnyFailure() })
		env.CloseBoth()
	})
	if out.Panic != "" && !out.Deadlock {
		return "panic in scenario root: " + out.Panic, nil, labels, true
	}
	mon.mu.Lock()
	defer mon.mu.Unlock()
	violation = mon.viol
	if violation == "" {
		violation = hookViol
	}
	if mon.full[0]+mon.full[1] > 0 {
		labels = append(labels, "window_filled")
		nontrivial = true
	}
	if len(sc.FaultsC2S)+len(sc.FaultsS2C) > 0 {
		labels = append(labels, "faults")
	}
	if violation != "" {
		tail = env.Trace.Tail(150)
	}
	return
}

func TestC09Dynamic(t *testing.T) {
	const unit = "TestC09Dynamic"
	rec := stats.New(t, "C09", unit)
	if scenarioReplay(t, rec, unit, 25, func(sc *vnet.Scenario) (string, []string) {
		v, tail, _, _ := runC09Dynamic(t, sc)
		return v, tail
	}) {
		return
	}
	rapid.Check(t, func(rt *rapid.T) {
		sc := genC09Dynamic(rt)
		rec.Current("scenario", sc)
		v, tail, labels, nt := runC09Dynamic(t, sc)
		rec.Case(nt, scKey(sc), labels...)
		if nt && rec.WantSample() {
			rec.Sample(sc)
		}
		if v != "" {
			rec.Pending(v, "scenario", withTrace(sc, tail))
			rt.Fatalf("%s", v)
		}
	})
	rec.Done()
}

// ---------- blocking behaviour ----------

type blockCase struct {
	N       int  `json:"n"`
	K       int  `json:"k"`        // messages beyond N
	FwdMs   int  `json:"fwd_ms"`   // data direction latency
	RevMs   int  `json:"rev_ms"`   // ack direction latency
	FromSrv bool `json:"from_srv"` // sender is the server side (uses the negotiated N)
}

func runC09Blocking(t *testing.T, c blockCase) (violation string) {
	rtt := c.FwdMs + c.RevMs
	sc := &vnet.Scenario{N: c.N,
		Client:     vnet.TimeoutCfg{Static: true, ResendMs: 4*rtt + 1000, HandshakeMs: 4*rtt + 1000},
		Server:     vnet.TimeoutCfg{Static: true, ResendMs: 4*rtt + 1000, HandshakeMs: 4*rtt + 1000},
		DeadlineMs: 60000 + 100*rtt}
	msgs := make([]vnet.Msg, c.N+c.K)
	for i := range msgs {
		msgs[i].Len = 6
	}
	d := 0
	if c.FromSrv {
		sc.S2C, sc.LatS2CMs, sc.LatC2SMs, d = msgs, c.FwdMs, c.RevMs, 1
	} else {
		sc.C2S, sc.LatC2SMs, sc.LatS2CMs = msgs, c.FwdMs, c.RevMs
	}
	var env *vnet.Env
	out := vnet.InBubble(t, bubbleWatchdog, func() {
		env = vnet.NewEnv(sc)
		env.StartHandshake()
		if !env.WaitHandshake(600 * time.Second) {
			violation = "clean handshake did not complete"
			env.CloseBoth()
			return
		}
		// let the handshake traffic drain so that timing starts clean
		time.Sleep(ms(2*rtt + 10))
		env.StartReceiver(d)
		env.StartSender(d)
		env.WaitUntil(ms(sc.DeadlineMs), func() bool { return env.AllDelivered() || env.AnyFailure() })
		env.CloseBoth()
	})
	if violation != "" {
		return
	}
	if out.Panic != "" && !out.Deadlock {
		return "panic in scenario root: " + out.Panic
	}
	ds := env.Dir[d]
	if len(ds.SendDone) != c.N+c.K || len(ds.Recv) != c.N+c.K {
		return fmt.Sprintf("only %d of %d sends returned and %d messages arrived on a reliable link (send err %v)",
			len(ds.SendDone), c.N+c.K, len(ds.Recv), ds.SendErr)
	}
	t0 := ds.SendStart[0]
	for i := 0; i < c.N; i++ {
		if el := ds.SendDone[i] - t0; el != 0 {
			return fmt.Sprintf("Send #%d of the first N=%d returned after %dus of virtual time; it must not wait for the peer (RTT %dms)", i, c.N, el, rtt)
		}
	}
	rttUs := int64(rtt) * 1000
	for j := 0; j < c.K; j++ {
		el := ds.SendDone[c.N+j] - t0
		if rtt > 0 && el < rttUs {
			return fmt.Sprintf("Send #%d (window N=%d full) returned after %dus, before the first acknowledgement could arrive (RTT %dus)", c.N+j, c.N, el, rttUs)
		}
		// On a reliable link ACK i frees slot i: Send N+j can return once
		// ACK j is in, i.e. after one RTT (all first-N packets leave at t0).
		if el > rttUs*int64(1+j/c.N)+1000 {
			return fmt.Sprintf("Send #%d returned after %dus although an acknowledgement freed a slot at %dus", c.N+j, el, rttUs*int64(1+j/c.N))
		}
	}
	return ""
}

func TestC09Blocking(t *testing.T) {
	const unit = "TestC09Blocking"
	rec := stats.New(t, "C09", unit)
	var rc blockCase
	if stats.ReplayCase(unit, &rc) {
		if v := runC09Blocking(t, rc); v != "" {
			rec.Violation(v, "block", rc)
			t.Fatal(v)
		}
		return
	}
	if stats.ReplayMode() {
		t.Skip()
	}
	rapid.Check(t, func(rt *rapid.T) {
		c := blockCase{
			N:       genN().Draw(rt, "n"),
			K:       rapid.OneOf(rapid.IntRange(1, 5), rapid.IntRange(1, 60)).Draw(rt, "k"),
			FwdMs:   rapid.SampledFrom([]int{0, 1, 10, 100, 900}).Draw(rt, "fwd"),
			RevMs:   rapid.SampledFrom([]int{1, 10, 100, 900, 3000}).Draw(rt, "rev"),
			FromSrv: rapid.Bool().Draw(rt, "from_srv"),
		}
		rec.Current("block", c)
		v := runC09Blocking(t, c)
		rec.Case(true, fmt.Sprintf("%+v", c), map[bool]string{true: "server_sender", false: "client_sender"}[c.FromSrv])
		if rec.WantSample() {
			rec.Sample(c)
		}
		if v != "" {
			rec.Pending(v, "block", c)
			rt.Fatalf("%s", v)
		}
	})
	rec.Done()
}

// ---------- blocking with a transport that fails once ----------

// sendFailCase: N+K back-to-back Sends while the acknowledgements are one
// round trip away, and the transport's send function fails for the first
// transmission of DATA packet number FailAt. The connection may give up (its
// Sends then return errors), but whatever it does, no more than N Sends may
// be accepted before the first acknowledgement can have arrived.
type sendFailCase struct {
	N       int  `json:"n"`
	K       int  `json:"k"`
	FailAt  int  `json:"fail_at"`
	FwdMs   int  `json:"fwd_ms"`
	RevMs   int  `json:"rev_ms"`
	FromSrv bool `json:"from_srv"`
}

func runC09SendFail(t *testing.T, c sendFailCase) (violation string) {
	rtt := c.FwdMs + c.RevMs
	sc := &vnet.Scenario{N: c.N,
		Client:     vnet.TimeoutCfg{Static: true, ResendMs: 4*rtt + 1000, HandshakeMs: 4*rtt + 1000},
		Server:     vnet.TimeoutCfg{Static: true, ResendMs: 4*rtt + 1000, HandshakeMs: 4*rtt + 1000},
		DeadlineMs: 20000 + 20*rtt}
	msgs := make([]vnet.Msg, c.N+c.K)
	for i := range msgs {
		msgs[i].Len = 6
	}
	script := make([]vnet.Decision, c.FailAt+1)
	for i := range script {
		script[i] = vnet.Decision{Kind: vnet.Deliver}
	}
	script[c.FailAt] = vnet.Decision{Kind: vnet.Fail}
	d := 0
	if c.FromSrv {
		sc.S2C, sc.LatS2CMs, sc.LatC2SMs, d = msgs, c.FwdMs, c.RevMs, 1
		sc.FaultsS2C = script
	} else {
		sc.C2S, sc.LatC2SMs, sc.LatS2CMs = msgs, c.FwdMs, c.RevMs
		sc.FaultsC2S = script
	}
	var env *vnet.Env
	out := vnet.InBubble(t, bubbleWatchdog, func() {
		env = vnet.NewEnv(sc)
		env.StartHandshake()
		if !env.WaitHandshake(600 * time.Second) {
			violation = "clean handshake did not complete"
			env.CloseBoth()
			return
		}
		time.Sleep(ms(2*rtt + 10))
		// from here on the sending direction carries first transmissions
		// only (no reverse traffic to acknowledge, resend timeout > 4 RTT)
		env.ArmFaults()
		env.StartReceiver(d)
		env.StartSender(d)
		env.WaitUntil(ms(sc.DeadlineMs), func() bool { return env.AllDelivered() || env.AnyFailure() })
		env.CloseBoth()
	})
	if violation != "" {
		return
	}
	if out.Panic != "" && !out.Deadlock {
		return "panic in scenario root: " + out.Panic
	}
	ds := env.Dir[d]
	if len(ds.SendStart) == 0 {
		return ""
	}
	t0 := ds.SendStart[0]
	rttUs := int64(rtt) * 1000
	early := 0
	for _, at := range ds.SendDone {
		if at-t0 < rttUs {
			early++
		}
	}
	if early > c.N {
		return fmt.Sprintf("%d Sends were accepted within %dus, before any acknowledgement could arrive (RTT %dus), with a window of N=%d (the transport failed the first transmission of packet %d): Send must block once N packets are outstanding, whether or not they reached the wire",
			early, ds.SendDone[early-1]-t0, rttUs, c.N, c.FailAt)
	}
	return ""
}

func TestC09SendFail(t *testing.T) {
	const unit = "TestC09SendFail"
	rec := stats.New(t, "C09", unit)
	var rc sendFailCase
	if stats.ReplayCase(unit, &rc) {
		if v := runC09SendFail(t, rc); v != "" {
			rec.Violation(v, "sendfail", rc)
			t.Fatal(v)
		}
		return
	}
	if stats.ReplayMode() {
		t.Skip()
	}
	rapid.Check(t, func(rt *rapid.T) {
		n := genN().Draw(rt, "n")
		c := sendFailCase{
			N:       n,
			K:       rapid.IntRange(1, 8).Draw(rt, "k"),
			FwdMs:   rapid.SampledFrom([]int{0, 1, 10, 100}).Draw(rt, "fwd"),
			RevMs:   rapid.SampledFrom([]int{1, 10, 100, 900}).Draw(rt, "rev"),
			FromSrv: rapid.Bool().Draw(rt, "from_srv"),
		}
		// the packet that fills the window, its neighbours, or any packet
		c.FailAt = rapid.OneOf(rapid.SampledFrom([]int{n - 1, n - 1, n - 1, n, maxInt(n-2, 0), 0}), rapid.IntRange(0, n+c.K-1)).Draw(rt, "fail_at")
		rec.Current("sendfail", c)
		v := runC09SendFail(t, c)
		label := "fail_elsewhere"
		if c.FailAt == n-1 {
			label = "fail_on_window_filling_packet"
		}
		rec.Case(true, fmt.Sprintf("%+v", c), label)
		if rec.WantSample() {
			rec.Sample(c)
		}
		if v != "" {
			rec.Pending(v, "sendfail", c)
			rt.Fatalf("%s", v)
		}
	})
	rec.Done()
}
