package gbnprop

import (
	"bytes"
	"context"
	"fmt"
	"sync"
	"testing"
	"time"

	"github.com/lightninglabs/lightning-node-connect/gbn"
	"pgregory.net/rapid"

	"verif/harness/stats"
	"verif/harness/vnet"
)

// TestC14Polling: a receiver that uses Recv as a poll - a receive deadline of
// nanoseconds to microseconds, retried for ever - in REAL time. In a bubble a
// deadline and a chunk only meet when the script makes them (the fake clock
// does not move while a goroutine can run); with the real clock and the real
// scheduler the deadline of every poll passes while chunks are being handed
// over, so "the deadline expires at any point inside a message" is sampled at
// the points virtual time cannot reach: between Recv's select and whatever it
// does next. Reliable zero-latency transport, no faults.
//
// Oracle: what the polling receiver collects is at every moment a byte-exact
// prefix of the messages sent; a timed-out Recv loses nothing. (Completion is
// not demanded within a wall-clock limit: an incomplete but correct prefix is
// counted, not reported.)
type pollCase struct {
	N       int   `json:"n"`
	Chunk   int   `json:"chunk"`
	Lens    []int `json:"lens"`
	PollNs  int   `json:"poll_ns"`
	FromSrv bool  `json:"from_srv,omitempty"`
}

func genC14Poll(t *rapid.T) *pollCase {
	c := &pollCase{}
	c.N = rapid.SampledFrom([]int{1, 2, 5, 20, 100}).Draw(t, "n")
	c.Chunk = rapid.SampledFrom([]int{0, 1, 1, 2, 7}).Draw(t, "chunk")
	c.PollNs = rapid.SampledFrom([]int{1, 1, 100, 1000, 5000, 20000, 100000}).Draw(t, "poll_ns")
	count := rapid.IntRange(100, 400).Draw(t, "count")
	maxLen := 12
	if c.Chunk == 0 {
		maxLen = 3
	}
	for i := 0; i < count; i++ {
		c.Lens = append(c.Lens, rapid.IntRange(0, maxLen).Draw(t, "len"))
	}
	c.FromSrv = rapid.Bool().Draw(t, "from_srv")
	return c
}

type pollResult struct {
	violation string
	polls     int
	timeouts  int
	complete  bool
}

func runC14Poll(c *pollCase) (res pollResult) {
	tr := vnet.NewTrace(1000)
	c2s := vnet.NewLink("c2s", 0, nil, tr)
	s2c := vnet.NewLink("s2c", 0, nil, tr)
	ctx, cancel := context.WithCancel(context.Background())
	defer cancel()
	tcfg := vnet.TimeoutCfg{Static: true, ResendMs: 2000, HandshakeMs: 2000}
	opts := []gbn.Option{gbn.WithTimeoutOptions(tcfg.Options()...)}
	if c.Chunk > 0 {
		opts = append(opts, gbn.WithMaxSendSize(c.Chunk))
	}
	var (
		client, server *gbn.GoBackNConn
		cerr, serr     error
		hs             sync.WaitGroup
	)
	hs.Add(2)
	go func() {
		defer hs.Done()
		server, serr = gbn.NewServerConn(ctx, s2c.Send, c2s.Recv, opts...)
	}()
	go func() {
		defer hs.Done()
		client, cerr = gbn.NewClientConn(ctx, uint8(c.N), c2s.Send, s2c.Recv, opts...)
	}()
	hs.Wait()
	defer func() {
		if client != nil {
			_ = client.Close()
		}
		if server != nil {
			_ = server.Close()
		}
	}()
	if cerr != nil || serr != nil || client == nil || server == nil {
		// not this unit's subject (and not expected on a reliable link)
		return
	}
	snd, rcv := client, server
	if c.FromSrv {
		snd, rcv = server, client
	}
	var msgs [][]byte
	for i, l := range c.Lens {
		msgs = append(msgs, vnet.Payload('p', i, l))
	}
	sendDone := make(chan error, 1)
	go func() {
		for _, m := range msgs {
			if err := snd.Send(m); err != nil {
				sendDone <- err
				return
			}
		}
		sendDone <- nil
	}()
	rcv.SetRecvTimeout(time.Duration(c.PollNs))
	limit := time.Now().Add(20 * time.Second)
	got := 0
	for got < len(msgs) && time.Now().Before(limit) {
		res.polls++
		b, err := rcv.Recv()
		if err != nil {
			if isTimeoutErr(err) {
				res.timeouts++
				continue
			}
			res.violation = fmt.Sprintf("Recv failed on a reliable link after %d messages: %v", got, err)
			return
		}
		if !bytes.Equal(b, msgs[got]) {
			res.violation = fmt.Sprintf("polling receiver (deadline %dns, %d polls, %d timed out): result %d is %d bytes %x, message %d sent was %d bytes %x (chunk size %d): a timed-out Recv lost or merged chunks",
				c.PollNs, res.polls, res.timeouts, got, len(b), head16(b), got, len(msgs[got]), head16(msgs[got]), c.Chunk)
			return
		}
		got++
	}
	res.complete = got == len(msgs)
	return
}

func head16(b []byte) []byte {
	if len(b) > 16 {
		return b[:16]
	}
	return b
}

func TestC14Polling(t *testing.T) {
	const unit = "TestC14Polling"
	rec := stats.New(t, "C14", unit)
	var rc pollCase
	if stats.ReplayCase(unit, &rc) {
		for i := 0; i < 25; i++ {
			if r := runC14Poll(&rc); r.violation != "" {
				rec.Violation(r.violation, "c14poll", rc)
				t.Fatal(r.violation)
			}
		}
		return
	}
	if stats.ReplayMode() {
		t.Skip()
	}
	rapid.Check(t, func(rt *rapid.T) {
		c := genC14Poll(rt)
		rec.Current("c14poll", c)
		r := runC14Poll(c)
		var labels []string
		if r.timeouts > 0 {
			labels = append(labels, "poll_timed_out")
		}
		if !r.complete && r.violation == "" {
			labels = append(labels, "incomplete_within_20s")
		}
		// non-trivial: polls timed out while the transfer was going on
		rec.Case(r.timeouts > 0, fmt.Sprintf("%+v", *c), labels...)
		rec.Label("polls", int64(r.polls))
		rec.Label("polls_timed_out", int64(r.timeouts))
		if r.timeouts > 0 && rec.WantSample() {
			rec.Sample(struct {
				N, Chunk, PollNs, Messages, Polls, TimedOut int
			}{c.N, c.Chunk, c.PollNs, len(c.Lens), r.polls, r.timeouts})
		}
		if r.violation != "" {
			rec.Pending(r.violation, "c14poll", c)
			rt.Fatalf("%s", r.violation)
		}
	})
	rec.Done()
}
