// Package stats collects per-check coverage counters, class histograms,
// distinct non-trivial case hashes, samples, violations and known-finding hits
// and writes them to the file named by $VERIF_STATS when the test ends. The
// driver (/verif/check) merges the files of all shards into evidence/<id>.json.
package stats

import (
	"crypto/sha256"
	"encoding/binary"
	"encoding/json"
	"fmt"
	"os"
	"path/filepath"
	"sort"
	"strconv"
	"sync"
	"testing"
)

const (
	maxHashes  = 400000
	maxSamples = 5
)

// Violation is one property violation found by a check.
type Violation struct {
	Msg    string `json:"msg"`
	Replay string `json:"replay"`
}

// File is the on-disk format of a stats file.
type File struct {
	Check        string            `json:"check"`
	Unit         string            `json:"unit"`
	Evaluations  int64             `json:"evaluations"`
	Nontrivial   int64             `json:"nontrivial"`
	Hashes       []uint64          `json:"hashes"`
	HashOverflow bool              `json:"hash_overflow"`
	Classes      map[string]int64  `json:"classes"`
	Samples      []json.RawMessage `json:"samples"`
	Violations   []Violation       `json:"violations"`
	KnownHits    map[string]int64  `json:"known_hits"`
	KnownWhat    map[string]string `json:"known_what"`
	Exhaustive   *bool             `json:"exhaustive,omitempty"`
	Notes        []string          `json:"notes"`
	Inconclusive []string          `json:"inconclusive"`
	Completed    bool              `json:"completed"`
}

// Recorder accumulates the statistics of one test function.
type Recorder struct {
	mu     sync.Mutex
	f      File
	hashes map[uint64]struct{}
	known  map[string]knownEntry
	// last pending violation (overwritten while rapid shrinks; the last one
	// recorded is the minimal one because rapid re-runs the minimal case
	// last).
	pending *Violation
}

type knownEntry struct {
	ID       string `json:"id"`
	Property string `json:"property"`
	Status   string `json:"status"`
	What     string `json:"what"`
}

// Tier returns "quick" or "thorough".
func Tier() string {
	if os.Getenv("VERIF_TIER") == "thorough" {
		return "thorough"
	}
	return "quick"
}

// Thorough reports whether the thorough tier is running.
func Thorough() bool { return Tier() == "thorough" }

// Scale returns q in the quick tier and th in the thorough tier. It can be
// overridden by $VERIF_SCALE_<name> for experiments.
func Scale(q, th int) int {
	if Thorough() {
		return th
	}
	return q
}

// Shard returns (index, count) of this worker process.
func Shard() (int, int) {
	i, _ := strconv.Atoi(os.Getenv("VERIF_SHARD"))
	n, _ := strconv.Atoi(os.Getenv("VERIF_SHARDS"))
	if n <= 0 {
		n = 1
	}
	return i, n
}

// Seed returns the seed given to this worker (never 0).
func Seed() uint64 {
	s, _ := strconv.ParseUint(os.Getenv("VERIF_SEED_EFF"), 10, 64)
	if s == 0 {
		s = 1
	}
	return s
}

// New creates a Recorder for the given property and unit name and arranges for
// the stats file to be written when the test finishes (also on failure).
func New(t testing.TB, check, unit string) *Recorder {
	r := &Recorder{
		hashes: make(map[uint64]struct{}),
		known:  make(map[string]knownEntry),
	}
	r.f.Check = check
	r.f.Unit = unit
	r.f.Classes = make(map[string]int64)
	r.f.KnownHits = make(map[string]int64)
	r.f.KnownWhat = make(map[string]string)

	if p := os.Getenv("VERIF_KNOWN"); p != "" {
		if b, err := os.ReadFile(p); err == nil {
			var kf struct {
				Findings []knownEntry `json:"findings"`
			}
			if err := json.Unmarshal(b, &kf); err == nil {
				for _, k := range kf.Findings {
					if k.Property == check && k.Status == "known" {
						r.known[k.ID] = k
					}
				}
			}
		}
	}

	t.Cleanup(func() { r.flush() })
	return r
}

// IsKnown reports whether the finding id is listed as a known (unrepaired)
// finding for this property in known_findings.json.
func (r *Recorder) IsKnown(id string) bool {
	_, ok := r.known[id]
	return ok
}

// KnownHit counts one case that reproduced the listed known finding id.
func (r *Recorder) KnownHit(id string) {
	r.mu.Lock()
	defer r.mu.Unlock()
	r.f.KnownHits[id]++
	r.f.KnownWhat[id] = r.known[id].What
}

func hashOf(key any) uint64 {
	var b []byte
	switch k := key.(type) {
	case []byte:
		b = k
	case string:
		b = []byte(k)
	default:
		b, _ = json.Marshal(key)
	}
	h := sha256.Sum256(b)
	return binary.LittleEndian.Uint64(h[:8])
}

// Case counts one executed case. key is the canonical form of the case used
// for distinctness (only used when nontrivial is true).
func (r *Recorder) Case(nontrivial bool, key any, labels ...string) {
	var h uint64
	if nontrivial {
		h = hashOf(key)
	}
	r.mu.Lock()
	defer r.mu.Unlock()
	r.f.Evaluations++
	for _, l := range labels {
		r.f.Classes[l]++
	}
	if nontrivial {
		r.f.Nontrivial++
		if _, ok := r.hashes[h]; !ok {
			if len(r.hashes) < maxHashes {
				r.hashes[h] = struct{}{}
			} else {
				r.f.HashOverflow = true
			}
		}
	}
}

// CaseN counts n cases at once for tight enumeration loops where hashing each
// case would dominate; distinct must be the number of those that are distinct
// and non-trivial by construction (an enumeration never repeats a case).
func (r *Recorder) CaseN(n, distinctNontrivial int64, idBase string, labels ...string) {
	r.mu.Lock()
	defer r.mu.Unlock()
	r.f.Evaluations += n
	r.f.Nontrivial += distinctNontrivial
	for _, l := range labels {
		r.f.Classes[l] += n
	}
	// Represent the enumerated block by synthetic distinct ids so that the
	// merged distinct count is exact across shards enumerating disjoint
	// blocks (idBase must identify the block).
	base := hashOf(idBase)
	for i := int64(0); i < distinctNontrivial; i++ {
		if len(r.hashes) >= maxHashes {
			r.f.HashOverflow = true
			break
		}
		r.hashes[base+uint64(i)*0x9e3779b97f4a7c15] = struct{}{}
	}
}

// Label adds to a class counter without counting a case.
func (r *Recorder) Label(l string, n int64) {
	r.mu.Lock()
	defer r.mu.Unlock()
	r.f.Classes[l] += n
}

// Sample stores v as a sample case (first few only).
func (r *Recorder) Sample(v any) {
	r.mu.Lock()
	defer r.mu.Unlock()
	if len(r.f.Samples) >= maxSamples {
		return
	}
	b, err := json.Marshal(v)
	if err != nil {
		return
	}
	if len(b) > 6000 {
		b, _ = json.Marshal(map[string]any{
			"truncated_sample": string(b[:6000]),
		})
	}
	r.f.Samples = append(r.f.Samples, b)
}

// WantSample reports whether more samples are wanted.
func (r *Recorder) WantSample() bool {
	r.mu.Lock()
	defer r.mu.Unlock()
	return len(r.f.Samples) < maxSamples
}

// Note attaches free text to the evidence.
func (r *Recorder) Note(format string, a ...any) {
	r.mu.Lock()
	defer r.mu.Unlock()
	if len(r.f.Notes) < 50 {
		r.f.Notes = append(r.f.Notes, fmt.Sprintf(format, a...))
	}
}

// Inconclusive records that part of the exploration could not be decided
// (engine freeze, wall-clock budget); never a violation.
func (r *Recorder) Inconclusive(format string, a ...any) {
	r.mu.Lock()
	defer r.mu.Unlock()
	if len(r.f.Inconclusive) < 50 {
		r.f.Inconclusive = append(r.f.Inconclusive, fmt.Sprintf(format, a...))
	}
}

// SetExhaustive marks the enumerated sub-domain as completely covered.
func (r *Recorder) SetExhaustive(b bool) {
	r.mu.Lock()
	defer r.mu.Unlock()
	r.f.Exhaustive = &b
}

// Done marks the unit as having run to completion.
func (r *Recorder) Done() {
	r.mu.Lock()
	defer r.mu.Unlock()
	r.f.Completed = true
}

// ReplayDir is where replay files are written.
func ReplayDir() string {
	d := os.Getenv("VERIF_REPLAY_DIR")
	if d == "" {
		d = "/verif/replays"
	}
	_ = os.MkdirAll(d, 0o755)
	return d
}

// WriteReplay writes a replay file and returns its path.
func (r *Recorder) WriteReplay(kind string, replay any) string {
	return r.writeReplayMsg(kind, replay, "")
}

func (r *Recorder) writeReplayMsg(kind string, replay any, msg string) string {
	wrapped := map[string]any{
		"msg":      msg,
		"property": r.f.Check,
		"unit":     r.f.Unit,
		"kind":     kind,
		"case":     replay,
	}
	b, err := json.MarshalIndent(wrapped, "", " ")
	if err != nil {
		b = []byte(fmt.Sprintf("{\"error\": %q}", err.Error()))
	}
	h := sha256.Sum256(b)
	p := filepath.Join(ReplayDir(), fmt.Sprintf("%s-%s-%x.json", r.f.Check,
		r.f.Unit, h[:6]))
	_ = os.WriteFile(p, b, 0o644)
	return p
}

// Pending registers a violation that is about to be reported through rapid
// (t.Fatalf). Each call replaces the previous pending violation, so after
// rapid has finished shrinking the minimal failing case is the one that
// remains. The replay file of the replaced one is removed.
func (r *Recorder) Pending(msg, kind string, replay any) {
	p := r.writeReplayMsg(kind, replay, msg)
	r.mu.Lock()
	defer r.mu.Unlock()
	if r.pending != nil && r.pending.Replay != p {
		_ = os.Remove(r.pending.Replay)
	}
	r.pending = &Violation{Msg: msg, Replay: p}
}

// Violation registers a final violation immediately (enumerations).
func (r *Recorder) Violation(msg, kind string, replay any) string {
	p := r.writeReplayMsg(kind, replay, msg)
	r.mu.Lock()
	defer r.mu.Unlock()
	r.f.Violations = append(r.f.Violations, Violation{Msg: msg, Replay: p})
	return p
}

// FatalViolation records a violation, writes the statistics and ends the
// process. For use from a watchdog when the test goroutine itself can no longer
// make progress.
func (r *Recorder) FatalViolation(msg, kind string, replay any) {
	r.Violation(msg, kind, replay)
	r.flush()
	os.Exit(1)
}

// NumViolations returns the number of final violations so far.
func (r *Recorder) NumViolations() int {
	r.mu.Lock()
	defer r.mu.Unlock()
	return len(r.f.Violations)
}

// Current writes the case that is about to run to a well-known file so that a
// crash of the test binary can be attributed to it by the driver.
func (r *Recorder) Current(kind string, replay any) {
	p := os.Getenv("VERIF_CURRENT")
	if p == "" {
		return
	}
	wrapped := map[string]any{
		"property": r.f.Check,
		"unit":     r.f.Unit,
		"kind":     kind,
		"case":     replay,
	}
	b, _ := json.Marshal(wrapped)
	_ = os.WriteFile(p, b, 0o644)
}

func (r *Recorder) flush() {
	r.mu.Lock()
	defer r.mu.Unlock()
	if r.pending != nil {
		r.f.Violations = append(r.f.Violations, *r.pending)
		r.pending = nil
	}
	r.f.Hashes = r.f.Hashes[:0]
	for h := range r.hashes {
		r.f.Hashes = append(r.f.Hashes, h)
	}
	sort.Slice(r.f.Hashes, func(i, j int) bool { return r.f.Hashes[i] < r.f.Hashes[j] })
	p := os.Getenv("VERIF_STATS")
	if p == "" {
		return
	}
	// Several test functions of one process append to the same file as
	// JSON lines.
	b, err := json.Marshal(&r.f)
	if err != nil {
		return
	}
	fh, err := os.OpenFile(p, os.O_APPEND|os.O_CREATE|os.O_WRONLY, 0o644)
	if err != nil {
		return
	}
	defer fh.Close()
	_, _ = fh.Write(append(b, '\n'))
}

// ReplayCase loads the saved case of a replay file into v when the process was
// started in replay mode for the given unit. It returns false otherwise.
func ReplayCase(unit string, v any) bool {
	p := os.Getenv("VERIF_REPLAY")
	if p == "" {
		return false
	}
	b, err := os.ReadFile(p)
	if err != nil {
		return false
	}
	var w struct {
		Unit string          `json:"unit"`
		Case json.RawMessage `json:"case"`
	}
	if err := json.Unmarshal(b, &w); err != nil || w.Unit != unit {
		return false
	}
	return json.Unmarshal(w.Case, v) == nil
}

// ReplayMode reports whether the process runs in replay mode.
func ReplayMode() bool { return os.Getenv("VERIF_REPLAY") != "" }
