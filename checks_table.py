# Table of checks: property id -> units (Go test functions) that decide it.
# Values given as (quick, thorough) pairs are selected by tier.

CHECKS = {}

CHECKS["C19"] = {
    "level": "fault_enumeration",
    "rule": ("GBN: every packet type x all 256 values of each one-byte field x both flags x 11 payload lengths (enumerated); "
             "every byte string of length 0..3 through Deserialize (enumerated, 16.8M); rapid-generated structured and raw longer strings; "
             "MsgData: 256 version bytes x 10 payload lengths up to 1 MiB, all byte strings <=2, header/body length grid; "
             "TestC19ReusedValue / TestC19MsgDataReused: ONE value (fresh, or filled by Deserialize) serialised, some of its fields assigned in place (flags, payload of the same or another length, Seq / refilled by Deserialize), serialised again, 2-8 times over: every serialisation decodes to what the value holds at that moment. "
             "native go fuzzing in the thorough tier. Oracle: Deserialize(Serialize(v)) == v (nil == empty payload) and, for bytes b that deserialise, "
             "Deserialize(Serialize(Deserialize(b))) == Deserialize(b). Non-trivial: a value case, or a byte string the decoder accepts; distinct by content."),
    "exhaustive_scope": "all field values of every packet type for the listed payload lengths; all byte strings of length <= 3 (GBN) / <= 2 (MsgData)",
    "assumptions": ["nil and empty payloads are the same value"],
    "units": [
        {"pkg": "gbnprop", "run": "TestC19EnumValues", "kind": "plain"},
        {"pkg": "gbnprop", "run": "TestC19EnumBytes", "kind": "plain"},
        {"pkg": "gbnprop", "run": "TestC19Rapid", "checks": (20000, 300000), "shards": (1, 4)},
        {"pkg": "mboxprop", "run": "TestC19MsgDataEnum", "kind": "plain"},
        {"pkg": "gbnprop", "run": "TestC19ReusedValue", "checks": (20000, 400000), "shards": (1, 4)},
        {"pkg": "gbnprop", "run": "TestC19History", "checks": (20000, 400000), "shards": (1, 4)},
        {"pkg": "mboxprop", "run": "TestC19MsgDataReused", "checks": (20000, 400000), "shards": (1, 4)},
        {"pkg": "mboxprop", "run": "TestC19MsgDataHistory", "checks": (20000, 400000), "shards": (1, 4)},
        {"pkg": "mboxprop", "run": "TestC19MsgDataRapid", "checks": (20000, 300000), "shards": (1, 4)},
        {"pkg": "gbnprop", "run": "FuzzC19GBN", "kind": "fuzz", "fuzztime": (0, 60), "tiers": ("thorough",), "parallel": 8},
        {"pkg": "mboxprop", "run": "FuzzC19MsgData", "kind": "fuzz", "fuzztime": (0, 60), "tiers": ("thorough",), "parallel": 8},
    ],
}

CHECKS["C01"] = {
    "level": "exploration",
    "rule": ("rapid-generated scenarios run in virtual time (testing/synctest): window N in 1..254, bidirectional or unidirectional traffic sized to wrap the sequence space "
             "(chunked large messages wrap s=255), static/adaptive timeouts, keepalive on/off, latency below the resend timeout, an independent per-packet "
             "drop/dup(1-3)/delay script per direction (delays include values equal to the resend timeout), applied after or (1 in 6) during the handshake. "
             "Oracle: on each direction the Recv results are a byte-exact prefix of the messages offered before the first failed Send. "
             "In a quarter of the cases a receiving application stays out of Recv for up to 5 resend timeouts at the start and/or after every k-th message (k in 1, 2, N, N+1, 3N) while the peer keeps sending. "
             "Non-trivial: at least one fault hit a DATA/ACK/NACK packet and a retransmission was observed; distinct by scenario JSON."),
    "assumptions": ["transport model: FIFO per direction with drop/adjacent-duplicate/delay (vnet.Link)", "goroutine schedules are sampled, not enumerated"],
    "units": [
        {"pkg": "gbnprop", "run": "TestC01Delivery", "checks": (6000, 60000), "shards": (1, 16), "timeout": (900, 5400),
         "gomaxprocs": [16, 1, 2, 4]},
    ],
}

CHECKS["C09"] = {
    "level": "fault_enumeration",
    "rule": ("(1) enumeration through the verif hook: every sequence space s in 2..10 (and a 7x7 base/size grid for s=255) x every reachable (base,size<=n) built by addPacket/processACK "
             "x all 256 ACK values and all 256 NACK values, each state built both within the first trip round the sequence space and after one full lap (every slot of the retransmission buffer used before); post-state checked against an unbounded-integer reference (base,top < s; size <= n; top unchanged; base moves only within "
             "[old base, old top]; values of the sequence space outside the window change nothing; ACK(base) frees a slot; window slots populated); containsSequence vs cyclic membership for all triples. "
             "(2) rapid random (s,base,size,op,value). (3) virtual-time scenarios with a wire monitor: first transmissions minus everything the ACK/NACKs already handed to the sender could acknowledge must be <= N, "
             "and both ends must report n=N, s=N+1. (4) blocking: N+k back-to-back Sends with ACK latency D: the first N return with zero virtual elapsed time, the next not before one RTT and by one RTT (+1ms) per window. "
             "(5) TestC09SendFail: as (4), with the transport's send function failing once, for the first transmission of the window-filling packet, a neighbour or any packet: however the connection reacts (it may close), at most N Sends are accepted before the first acknowledgement can have arrived. The dynamic scenarios (3) also draw slow receiving applications and, in a fifth of the cases, one failing send. "
             "Non-trivial: enumerated triples whose value is in the window, equals top, or is >= s; dynamic cases in which the window filled; every blocking case."),
    "exhaustive_scope": "all (base,size,value) triples for s in 2..10 and the s=255 grid, both ACK and NACK; all containsSequence triples for s in 2..10",
    "assumptions": ["queue states are constructed by the same calls the connection makes", "the wire monitor reads ACK/NACK as generously cumulative as any correct sender could"],
    "units": [
        {"pkg": "gbnprop", "run": "TestC09EnumQueue", "kind": "plain"},
        {"pkg": "gbnprop", "run": "TestC09RapidQueue", "checks": (20000, 400000), "shards": (1, 4)},
        {"pkg": "gbnprop", "run": "TestC09Dynamic", "checks": (2500, 30000), "shards": (1, 8), "timeout": (900, 5400), "gomaxprocs": [16, 1, 2, 4]},
        {"pkg": "gbnprop", "run": "TestC09Blocking", "checks": (1500, 20000), "shards": (1, 4), "timeout": (900, 5400)},
        {"pkg": "gbnprop", "run": "TestC09SendFail", "checks": (1500, 20000), "shards": (1, 4), "timeout": (900, 5400)},
    ],
}

CHECKS["C14"] = {
    "level": "fault_enumeration",
    "rule": ("(1) exhaustive: maxChunk in 0..16 x all lengths 0..48 as consecutive messages of one connection + all ordered pairs of {0,1,c-1,c,c+1,2c,2c+1}, both roles, virtual time. "
             "(2) rapid: sequences of up to 50 messages (lengths up to 300 KiB, chunk up to 64 KiB), with drop/dup/delay scripts, with send deadlines and receive deadlines drawn around "
             "multiples of the RTT so that they expire before/inside/after multi-chunk messages; a timed-out call is retried. Oracle: Recv results are a byte-exact prefix of the offered messages, "
             "equal to the list of successful Sends when the run completes, and no DATA payload exceeds maxChunk. "
             "(3) TestC14Polling, REAL time: a receiver that polls (receive deadline 1 ns .. 100 us, retried for ever) while 100-400 small messages (chunk size 0/1/2/7, window 1..100) arrive over a reliable zero-latency link, so that deadlines expire between Recv's select and whatever it does next, a point the fake clock cannot reach; same prefix oracle. "
             "Non-trivial: a zero-length message, a length within +-1 of a multiple of the chunk size, "
             "or a deadline that fired inside a message (polling unit: polls timed out during the transfer)."),
    "exhaustive_scope": "maxChunk 0..16 x lengths 0..48 and boundary-length pairs",
    "assumptions": ["one sender and one receiver goroutine per direction"],
    "units": [
        {"pkg": "gbnprop", "run": "TestC14Enum", "kind": "plain"},
        {"pkg": "gbnprop", "run": "TestC14Rapid", "checks": (4000, 40000), "shards": (1, 8), "timeout": (900, 5400), "gomaxprocs": [16, 1, 2, 4]},
        {"pkg": "gbnprop", "run": "TestC14Polling", "checks": (60, 300), "shards": (1, 4), "timeout": (900, 5400), "gomaxprocs": [16, 2, 4, 1]},
    ],
}

CHECKS["C06"] = {
    "level": "exploration",
    "rule": ("rapid-generated scenarios in virtual time: clean handshake, then a finite drop/dup/delay script per direction (also bounded by a drawn time limit, with forced tail drops), then a reliable link with round trip "
             "below the resend and handshake timeouts; all N; static/adaptive timeouts; keepalive off, the mailbox's 5s/7s/3s, or drawn ping/pong; bursts with nothing after them, one-way bursts against a slow reverse trickle, "
             "chunked and mixed traffic. Oracles: (stall) while data is pending (an accepted message undelivered or a Send blocked) and both ends are open, the gap since the last delivery / Send completion / fault must not exceed "
             "10 x (resend + handshake timeout (hook, max of both ends, start and end of the gap) + RTT); (closure) without keepalive no Send/Recv may ever fail; with keepalive, after the first failure every endpoint's calls "
             "fail within ping+pong+bound; (quiescence) after delivery and recovery no non-ping DATA appears for 30-120 virtual seconds. Non-trivial: a fault hit a packet and a retransmission was needed; distinct by scenario JSON."),
    "assumptions": ["bounded liveness in virtual time with K=10", "transport model vnet.Link", "goroutine schedules sampled"],
    "units": [
        {"pkg": "gbnprop", "run": "TestC06Progress", "checks": (4000, 40000), "shards": (1, 16), "timeout": (900, 5400), "gomaxprocs": [16, 1, 2, 4]},
    ],
}

CHECKS["C20"] = {
    "level": "exploration",
    "rule": ("rapid-generated TimeoutManager histories in virtual time: options (static/adaptive, multiplier, update frequency, boost percent, handshake timeout) and up to 80 events "
             "Sent(SYN|DATA seq, resent?), Received(SYN|SYNACK|ACK seq|DATA|NACK|FIN), clock advances of 0, 1ns, base-1ns, base, base+1ns, current, ms..hours. After every event the clauses I1-I6 of DESIGN.md 5/C20 "
             "are evaluated against harness-side bookkeeping (live never-retransmitted samples, last effective boost/recomputation, un-boosted base). "
             "Non-trivial: a retransmitted sequence number was later sent fresh and acknowledged, or the history contains both a boost and a recomputation; distinct by history."),
    "assumptions": ["float32 boost arithmetic compared with 1e-5 relative tolerance", "how often a recomputation happens (update frequency) is not pinned"],
    "units": [
        {"pkg": "gbnprop", "run": "TestC20TimeoutModel", "checks": (40000, 600000), "shards": (1, 8), "timeout": (600, 3600)},
    ],
}

CHECKS["C13"] = {
    "level": "exploration",
    "rule": ("rapid-generated scenarios in virtual time. Dead peer: N in {1,2,3,5,20,254}, static/adaptive resend, keepalive on one or both ends with ping/pong from {5s/3s, 7s/3s, 1s/0.5s, 0.3s/0.1s, 2s/1s, 0.1s/0.05s}, "
             "bursts of k messages (k from 0 to N+3) on either side starting at a drawn offset, both directions go silent at a drawn instant chosen around those offsets (idle, mid-burst, window full, during a resend/sync wait). "
             "Oracle: every keepalive-enabled endpoint's Recv fails within ping+pong+8*resendTimeout(hook, re-read as it grows)+1s and its later Send fails. "
             "Live peer: healthy link with round trip <= min(pong)-1ms (and below the resend/handshake timeouts), 1-4 phases of idle (0 .. 500 ping intervals, offsets -1/0/+1ms) followed by a burst; "
             "oracle: no call fails, no FIN on the wire, every message sent after an idle period is delivered within 60s. "
             "Mailbox layer (TestC13MailboxKeepalive, virtual time, the mailbox's own 5s/7s ping and 3s pong): idle phases up to 1h on a healthy relay each followed by an exchange (no failure allowed), then the relay swallows everything with 0..19 writes pending: both conns' Read must fail within 40s. The mailbox-layer unit (5s/7s ping, 3s pong over the in-memory relay) runs on the first, second or third connection of a session (Refresh*Conn keeps the keepalive configuration). Non-trivial: data was outstanding when the silence began, or total idle time > 10 ping intervals; distinct by scenario."),
    "assumptions": ["bounded detection time 8*resend accounts for two sync waits (3*resend each) around ping and pong", "transport model vnet.Link"],
    "units": [
        {"pkg": "gbnprop", "run": "TestC13DeadPeer", "checks": (2500, 30000), "shards": (1, 8), "timeout": (900, 5400), "gomaxprocs": [16, 1, 2, 4]},
        {"pkg": "gbnprop", "run": "TestC13LivePeer", "checks": (1200, 12000), "shards": (1, 8), "timeout": (900, 5400), "gomaxprocs": [16, 1, 2, 4]},
        {"pkg": "mboxprop", "run": "TestC13MailboxKeepalive", "checks": (400, 6000), "shards": (1, 4), "timeout": (900, 5400)},
    ],
}

CHECKS["C12"] = {
    "level": "exploration",
    "rule": ("rapid-generated close events over running virtual-time scenarios: 1-5 Close calls by client/server (same or different instants, concurrent callers), at drawn moments (0, mid-burst, around resend/ping periods), "
             "with Send blocked on a full window, Recv blocked, unacknowledged data, faults active, transport working or black-holed, and applications that never call Recv on one or both ends (receive buffer full at Close); context cancellation during NewClientConn/NewServerConn; and (real time) a transport whose sendFunc blocks. "
             "Oracles: every Close returns within FIN send timeout (1s) + 50ms of virtual time; every endpoint whose Close returned has handed a FIN to the transport (by this Close or an earlier self-close) unless the peer's FIN had reached it first; blocked Send/Recv return errors and later calls fail within 50ms; over a working transport the peer's calls fail within one latency + 50ms; "
             "10 virtual minutes after both ends are closed no goroutine with a frame of the code under test remains in the bubble (runtime.Stack) and synctest reports no blocked goroutine. "
             "The same Close oracles are applied to mailbox.ClientConn / ServerConn over the in-memory relay in virtual time (TestC12MailboxClose: who/when/how many callers/traffic in flight/FIN deliverable or swallowed; Done() closed, peer notices by FIN within one latency or by the 5s/7s/3s keepalive, later Write fails, no goroutine left). TestC12SelfClose: the connection is closed by one of its own loops instead of the application - a frame its receive loop cannot decode (14 kinds: empty, truncated DATA/ACK/NACK/SYN, unknown types, SYN/SYNACK in the data phase), a recvFunc error (io.EOF or other), or one failed sendFunc call, at a drawn moment of a conversation in which both applications read and write, round trip below every timeout, no keepalive, optionally followed by the application's own Close: "
             "the endpoint's blocked Recv fails, a FIN is handed to the peer within one latency + 100 ms (the direction towards the peer works), the peer's blocked and later calls fail, and nothing is left running. "
             "Non-trivial: a Send was blocked or data was unacknowledged at the first Close, or several Close calls were made; every cancellation / blocking-transport / self-close / mailbox case with traffic or several callers."),
    "assumptions": ["timers without a goroutine are not observable by the leak detector", "blocking-transport cases run in real time with a 10x bound"],
    "units": [
        {"pkg": "gbnprop", "run": "TestC12Close", "checks": (3000, 40000), "shards": (1, 8), "timeout": (900, 5400), "gomaxprocs": [16, 1, 2, 4]},
        {"pkg": "gbnprop", "run": "TestC12SelfClose", "checks": (800, 15000), "shards": (1, 4), "timeout": (900, 5400), "gomaxprocs": [16, 1, 2, 4]},
        {"pkg": "gbnprop", "run": "TestC12HandshakeCancel", "checks": (600, 4000), "shards": (1, 2), "timeout": (900, 5400)},
        {"pkg": "gbnprop", "run": "TestC12BlockingTransport", "checks": (2, 12), "shards": (1, 2), "timeout": (900, 5400)},
        {"pkg": "mboxprop", "run": "TestC12MailboxClose", "checks": (500, 8000), "shards": (1, 4), "timeout": (900, 5400)},
    ],
}

CHECKS["C10"] = {
    "level": "exploration",
    "rule": ("rapid-generated handshake scenarios in virtual time: drop/dup/delay scripts (<=12 decisions per direction, delays around the handshake timeout) applied from the first packet, "
             "up to 5 stale packets of every type (SYN with the same/other N incl. 255 and 0, SYNACK, DATA, ACK, NACK, FIN) queued in either direction before anyone starts, all client N, drawn start offsets, "
             "both sides in retry loops (as Server.Accept / Client.Dial use the package) with drawn retry delay, keepalive on (drawn ping/pong, RTT below pong and below the handshake timeout). "
             "Safety oracle: a server attempt that enters the data phase has n (hook) equal to a SYN value that was handed to it, n != 255 and s = n+1; when data flows between the client and a server attempt their n agree; every SYNACK the client sends follows a SYN reply that carried the client's own N (trace). "
             "Progress oracle: within 10 x (4*handshake + 4*resend + ping+pong + retry + RTT + start offset) after the faults ceased some pair of live attempts has exchanged a message in both directions. "
             "Second unit (TestC10Recovery): ONE client attempt against ONE server attempt, no retry loops, no stale packets, keepalive off (or only the client's first ping): only handshake packets are lost - 0-3 rounds of 'SYN lost' / 'SYN reply lost' in any order, then the SYNACK lost (3 in 4) - "
             "with the client's first DATA packet or keepalive ping kept behind the expiry of the server's boosted handshake timeout, and in a third of the cases 0-4 stale packets of every type but SYN queued towards each side before the start (both handshakes ignore them); the handshake repairs each of these losses itself (SYN resend, server restart, DATA/SYNACK accepted after a restart), so this very pair must return connections with the client's N, deliver all messages in both directions within 600 virtual seconds and stay up. "
             "Non-trivial: a SYN/SYNACK was faulted or a stale packet preceded the first SYN; distinct by case."),
    "assumptions": ["convergence is checked with keepalive enabled (see DESIGN.md 5/C10)", "transport model vnet.Link"],
    "units": [
        {"pkg": "gbnprop", "run": "TestC10Handshake", "checks": (2000, 30000), "shards": (1, 8), "timeout": (900, 5400), "gomaxprocs": [16, 1, 2, 4]},
        {"pkg": "gbnprop", "run": "TestC10Recovery", "checks": (1500, 30000), "shards": (1, 4), "timeout": (900, 5400), "gomaxprocs": [16, 1, 2, 4]},
    ],
}

CHECKS["C18"] = {
    "level": "exploration",
    "rule": ("test binary built with -race (GORACE=halt_on_error=1). (a) rapid-generated virtual-time scenarios with keepalive on and all periods (ping, pong, resend, latency, pacing, fault delays) multiples of one "
             "base period so that timer expiries and packet arrivals coincide at identical virtual instants, plus up to 12 extra application goroutines calling Send, Recv (several calls, with chunking drawn so that messages are reassembled from several packets), SetSendTimeout, SetRecvTimeout and Close at those instants; "
             "(b) rapid-generated real-time stress of IntervalAwareForceTicker with exactly the call mix of the send loop (on tick: pong.Reset, pong.Resume, ping.Reset) and of the receive loop (ping.Reset, pong.IsActive/Pause), "
             "readers of NextTickIn/LastTimedTick, and three goroutines driving TimeoutManager Sent/Received/Get*/Set*; (c) start-up failures: the transport of one endpoint fails on the first data-phase call (or one call earlier / later) "
             "so that a goroutine of the connection exits and closes it while start() is still launching the others, with the application calling Close / Send / Recv at that moment, 50 connections per case. Oracle: no race report, no panic (close of closed channel, send on closed channel), no deadlock (watchdog). "
             "Non-trivial: a ping transmission coincided with a packet arrival or extra API goroutines ran; every stress case; distinct by case."),
    "assumptions": ["the race detector only sees interleavings that actually ran: this is sampling, the weakest claim of the set"],
    "units": [
        {"pkg": "gbnprop", "run": "TestC18RaceScenarios", "race": True, "checks": (700, 8000), "shards": (1, 8), "timeout": (900, 5400), "gomaxprocs": [16, 8, 4, 2]},
        {"pkg": "gbnprop", "run": "TestC18Stress", "race": True, "checks": (150, 1500), "shards": (1, 4), "timeout": (900, 5400)},
        {"pkg": "gbnprop", "run": "TestC18StartFailure", "race": True, "checks": (150, 3000), "shards": (2, 8), "timeout": (900, 5400)},
    ],
}

CHECKS["C07"] = {
    "level": "fault_enumeration",
    "rule": ("(1) every byte string of length 0..3, and of length 4 with first byte 0..7 (thorough: all 2^32 over 16 shards), through gbn.Deserialize; all strings <=2 bytes and a header/length grid through MsgData.Deserialize; "
             "(2) all 256 SYN N values against a live NewServerConn followed by SYNACK and one of four follow-ups (data / ACK+NACK with extreme values / another SYN / an honest receiver that acknowledges every DATA packet, after which the hook must report nothing outstanding); "
             "(3) for N in 1..3 (thorough: 1..4) a live client sender driven by a raw peer into every (base mod s, outstanding) state, then one ACK or NACK with each of the 256 sequence values, then 1.5 virtual seconds of running on (resend timer, more sends); "
             "(3a) TestC07QueueWithAPast (hook): all 256 ACK/NACK values against every (base, size) of s=2..6 reached after one or two full laps, same reference as C09's enumeration; (3b) TestC07MidResend: the same sender states with >= 2 packets outstanding (N in 2..4, thorough 2..6), every ACK/NACK value in 0..s and 255 delivered while the K-th packet of a retransmission round is being accepted by a transport that takes a millisecond to do so (every K), i.e. processed by the receive loop between two packets of the resend loop; (4) rapid: up to 8 arbitrary/hostile packets injected before, during or after the handshake of a live pair; (5) Noise handshake and record stream fed mutated/truncated/random bytes, stripJSONWrapper+protojson on generated JSON-ish strings (mboxprop units); "
             "native fuzzing of the decoders in the thorough tier. Oracle: no panic anywhere (a panic in a connection goroutine kills the worker and is attributed to the running case), Deserialize never returns both value and error, "
             "and the hook reports base,top < s, size <= n, s = n+1 after every step. Non-trivial: the input is not a well-formed packet for the state it is presented in or carries an out-of-range field; distinct by input."),
    "exhaustive_scope": "byte strings <=3 (and the stated 4-byte range); 256 SYN values x 3 follow-ups; all (N<=3, base, size, ACK|NACK, value) injections",
    "assumptions": ["forged ACK/NACKs may break delivery (Noise detects that); only crash-freedom and bookkeeping are asserted"],
    "units": [
        {"pkg": "gbnprop", "run": "TestC07EnumDecoder", "kind": "plain", "shards": (1, 16), "timeout": (600, 3600)},
        {"pkg": "gbnprop", "run": "TestC07SynValues", "kind": "plain"},
        {"pkg": "gbnprop", "run": "TestC07WindowInjection", "kind": "plain", "shards": (1, 8), "timeout": (900, 3600)},
        {"pkg": "gbnprop", "run": "TestC07QueueWithAPast", "kind": "plain"},
        {"pkg": "gbnprop", "run": "TestC07MidResend", "kind": "plain", "shards": (1, 4), "timeout": (900, 3600)},
        {"pkg": "gbnprop", "run": "TestC07Junk", "checks": (1500, 20000), "shards": (1, 8), "timeout": (900, 3600)},
        {"pkg": "gbnprop", "run": "FuzzC07Deserialize", "kind": "fuzz", "fuzztime": (0, 60), "tiers": ("thorough",), "parallel": 8},
        {"pkg": "mboxprop", "run": "TestC07NoiseJunk", "checks": (3000, 60000), "shards": (1, 8), "timeout": (900, 3600)},
        {"pkg": "mboxprop", "run": "TestC07RecordJunk", "checks": (1500, 30000), "shards": (1, 4), "timeout": (900, 3600)},
        {"pkg": "mboxprop", "run": "TestC07JSONEnvelope", "checks": (20000, 400000), "shards": (1, 4), "timeout": (900, 3600)},
        {"pkg": "mboxprop", "run": "TestC07MsgDataEnum", "kind": "plain"},
    ],
}

CHECKS["C03"] = {
    "level": "exploration",
    "rule": ("rapid-generated handshakes over an in-memory message pipe that records every byte: XX with equal / one-bit-different (any of the 112 bits) / random / shorter / zero-padded (differing only by a trailing zero byte) passphrases, all compatible version ranges, "
             "KK with each side's stored remote key right or wrong, KK impostors (either role presents the paired public key but computes its ECDH with an unrelated private key) and KK parties whose private-key operation fails (initiator, responder or both), drawn static keys, deterministic ephemerals, auth payloads 16 B .. 200 KB. In half of the XX mismatch cases each of the two passphrases has already paired a session of its own in the same process. Oracle: both DoHandshake succeed iff the secrets match; on a mismatch the responder "
             "returns an error having written zero bytes, the initiator returns an error, its AuthData is unchanged (nil, or the stale payload it held before), no onAuthData/onRemoteStatic callback fired, and the (high-entropy) payload appears nowhere on the wire. "
             "Non-trivial: the mismatch cases; distinct by configuration."),
    "assumptions": ["scrypt cost lowered by the verif hook (as the repo's rpctest tag does)"],
    "units": [
        {"pkg": "mboxprop", "run": "TestC03Secrets", "checks": (3000, 60000), "shards": (1, 8), "timeout": (900, 3600)},
    ],
}

CHECKS["C04"] = {
    "level": "fault_enumeration",
    "rule": ("(1) exhaustive: all 81 (iMin,iMax,rMin,rMax) in {0,1,2}^4 x {XX,KK}, clean, and for every valid range all 4^3 (XX) / 4^2 (KK) substitutions of the acts' version bytes by 0..3; "
             "(2) exhaustive: every single-bit flip of every byte of every act for XX v0, v1, v2, XX negotiated 0..2 and KK; (3) rapid: payload sizes {0,1,497..501,65535..65537, up to 3 MiB}, nil payload, random multi-byte rewrites, random version substitutions. "
             "Oracle: if both sides return nil they agree on version (hook), hold complementary traffic keys (hook, a probe record each way and, in a quarter of the clean runs, 501 further records each way so that the first key rotation is passed from the state the handshake left behind), each other's true static key, the same SID and next pattern, onRemoteStatic fired on both or neither; "
             "every party that completed holds a version inside its own configured [min,max]; an initiator that completed holds exactly the responder's payload, also when its ConnData already held auth data from an earlier handshake (drawn in a third of the rapid cases), and still holds it after an unrelated pair of parties (other keys, another payload of the same length) has run its handshake in the same process (every clean completion). Non-trivial: the relay changed a byte, or the negotiated version differs from a side's maximum; distinct by case."),
    "exhaustive_scope": "81 ranges x 2 patterns x all version-byte substitutions; all single-bit flips of 5 handshakes",
    "assumptions": ["scrypt cost lowered by the verif hook"],
    "units": [
        {"pkg": "mboxprop", "run": "TestC04Matrix", "kind": "plain", "timeout": (900, 3600)},
        {"pkg": "mboxprop", "run": "TestC04BitFlips", "kind": "plain", "shards": (2, 8), "timeout": (900, 3600)},
        {"pkg": "mboxprop", "run": "TestC04Rapid", "checks": (1500, 30000), "shards": (1, 8), "timeout": (900, 3600)},
    ],
}

CHECKS["C17"] = {
    "level": "exploration",
    "rule": ("rapid-generated 14-byte entropies (plus all-zero, all-one and all 112 single-bit patterns), 10-word phrases from aezeed.DefaultWordList (plus first/last word repeated), static key pairs and pairs of secrets. "
             "Oracle: MnemonicToEntropy(EntropyToMnemonic(e)) == e with the two unused low bits cleared; EntropyToMnemonic(MnemonicToEntropy(w)) == w; NewPassphraseEntropy is consistent; client and server ConnData.SID agree for "
             "the same passphrase and, after SetRemote on both, agree with each other and differ from the passphrase SID (and the pattern switches XX->KK); GetSID(sid,true) and GetSID(sid,false) differ in exactly the last bit; "
             "distinct passphrases / client keys give distinct SIDs; the stream-direction clause is also observed at the in-memory relay (TestC17Streams), on the first connection and on up to three further connections of the session built with RefreshClientConn / RefreshServerConn. The ConnData callbacks of both parties call back into their ConnData (SID, RemoteKey, AuthData, HandshakePattern) as SetRemote / SetAuthData allow; static keys whose ECDH operation fails must not yield a SID shared with an unrelated failing pair; one in eight SID cases runs real first pairings at negotiated version 0, 1 and 2 and compares both parties' SIDs (key-derived from version 2 on, the passphrase one below) and next patterns afterwards. Non-trivial: entropy with an unused low bit set, every phrase and SID case."),
    "assumptions": ["stream-direction agreement is relative to the in-memory relay"],
    "units": [
        {"pkg": "mboxprop", "run": "TestC17Codec", "checks": (20000, 400000), "shards": (1, 4), "timeout": (600, 3600)},
        {"pkg": "mboxprop", "run": "TestC17Streams", "checks": (300, 3000), "shards": (1, 4), "timeout": (600, 3600)},
    ],
}

CHECKS["C02"] = {
    "level": "fault_enumeration",
    "rule": ("(1) exhaustive: every single-bit flip of one whole wire record (encrypted length header, its MAC, body, body MAC) for payload sizes {0,1,2,16,33} (thorough: 9 sizes up to 300), at stream positions 0, 1, 2, 498..501, 999, 1000 (around the key rotations after 500 and 1000 records; every flip is offered to a value copy of the reader in the right state), XX and KK, both directions; "
             "(2) rapid: sessions (XX/KK, all versions) whose writer emits 1-12 records (sizes 0..65535), captured at the wire and edited by scripts of up to 4 operations out of flip, truncate, drop, dup, swap, replay, reflect (the reader's own ciphertext of the other direction), inject bytes, swap header; "
             "the edited stream is consumed through Machine.ReadMessage, NoiseGrpcConn.Read (in-memory ProxyConn) and NoiseConn.Read (hook constructor). (3) rapid: streams of up to 1700 records in which an earlier record (distance 1, 2, 250, 499, 500, 501, 1000, 1500 or random; i.e. within and across key rotations, aligned to the rotation period or not) is delivered in place of record k, and in addition every earlier record at a power-of-two distance (+-1) and at 250/500/750/1000/1500 (+-1) is offered to a value copy of the reader at that position. (4) TestC02SessionReuse: one NoiseGrpcConn per party through 2-4 handshakes (it is the credentials object, re-used for every connection of a session), readers that stop in the middle of a record, next handshake over a fresh transport: nothing of an earlier session may be returned under the new one. Oracle: the records returned before the first error equal the first records written, "
             "their number does not exceed the number of leading untouched records, and untouched leading records are all returned (no spurious error). Non-trivial: the script changed the byte stream; distinct by case."),
    "exhaustive_scope": "all single-bit flips of the stated records",
    "assumptions": ["reading stops at the first error (as the net.Conn users do)", "scrypt cost lowered by the verif hook"],
    "units": [
        {"pkg": "mboxprop", "run": "TestC02BitFlips", "kind": "plain", "shards": (4, 16), "timeout": (900, 3600)},
        {"pkg": "mboxprop", "run": "TestC02EditScripts", "checks": (4000, 60000), "shards": (1, 8), "timeout": (900, 3600)},
        {"pkg": "mboxprop", "run": "TestC02SessionReuse", "checks": (600, 10000), "shards": (1, 4), "timeout": (900, 3600)},
        {"pkg": "mboxprop", "run": "TestC02CrossRotation", "checks": (1500, 20000), "shards": (1, 8), "timeout": (900, 3600)},
    ],
}

CHECKS["C08"] = {
    "level": "exploration",
    "rule": ("rapid-generated sessions (XX v0/v1/v2, KK) followed by up to 12 runs of records (4500 records per case in the quick tier, 20000 in the thorough tier; run lengths include 499/500/501/999/1000/1001 around the rotation every 500 records), "
             "directions interleaved arbitrarily, a sixth of the runs with the first Flush of every record interrupted by a write timeout after 1..400 bytes - in half of the cases with writes and reads as separate steps, so that records of both directions are in flight while each side passes rotation boundaries -, sizes 0..65535, plaintext kinds: all-equal, the 2-byte body that equals its own length header, distinct random. Oracles per record: the (key, nonce) pair (hook) is new within its direction and the two directions never share a key; "
             "wire length is 18+len+16; the encrypted header never repeats; equal plaintexts never give equal ciphertext; a 2-byte body never equals any header ciphertext; no 16-byte window of plaintext or auth payload is on the wire (records and handshake); "
             "the peer decrypts every record to exactly what was written. TestC08Duplex: the two directions interleaved inside a record (the duplex runner of C16 (e)): each direction keeps decrypting to what was written when the other direction's records are written / read between the fragments of this one. "
             "Non-trivial: the stream crossed at least one rotation and contained equal plaintexts; distinct by case."),
    "assumptions": ["scrypt cost lowered by the verif hook"],
    "units": [
        {"pkg": "mboxprop", "run": "TestC08CipherStream", "checks": (400, 3000), "shards": (1, 8), "timeout": (900, 3600)},
        {"pkg": "mboxprop", "run": "TestC08Duplex", "checks": (600, 5000), "shards": (1, 8), "timeout": (900, 3600)},
    ],
}

CHECKS["C16"] = {
    "level": "fault_enumeration",
    "rule": ("(a) every valid version range (36) x {XX,KK} x payload {0,40,600} run twice with the same keys and ephemerals: over a message-preserving pipe and over a reader that returns at most k in {1,2,7,33,100} bytes per Read; outcomes (success, version, payload, identities, keys) must be identical. "
             "(b)+(c) partial writes: all two- and three-way partitions of the wire bytes of a record for payload sizes 0..24 (exhaustive) and rapid partitions with up to 12 cut points for sizes up to 65535 at positions incl. across a key rotation; "
             "the peer reads the re-assembled record through a fragmenting reader. Oracle: the bytes accepted over all Flush calls equal the wire record of a reference session written in one go, exactly once; the Flush counts sum to the plaintext length; "
             "WriteMessage while bytes are pending returns ErrMessageNotFlushed; an extra Flush is a no-op; the peer decrypts the record and the following one. "
             "(d) NoiseConn.Write (1-3 writes of 0..200000 bytes, chunked above 65535) over a transport that times out at up to 8 drawn wire offsets (anywhere, and near record boundaries), resumed as documented (Flush until it succeeds, add every count, Write the unreported rest): the peer must decrypt exactly the bytes written, once. (e) TestC16Duplex: one Machine used in both directions at once: 1-5 outbound records accepted by the transport in pieces (up to 10 timeouts, many inside the 18-byte header) while 1-5 inbound records arrive in short reads (1..70000 bytes per read); a drawn schedule runs 0-2 writer steps (WriteMessage+Flush / Flush of the rest) before each inbound fragment, from inside the reader callback; bytes accepted must equal the reference session's wire records, Flush counts the plaintext, both peers decrypt everything. "
             "(f) TestC16Coalesce: handshake and first records over lazy byte streams (a Read is served only when the peer waits for data itself or has finished, up to a drawn cap per Read of 1 byte .. unlimited), so that the last handshake act is read with the peer's first 0-4 records already behind it: handshake succeeds and each side reads exactly what the other wrote. "
             "Non-trivial: every fragmented handshake, every partition with >= 1 cut, duplex cases with write timeouts and writer steps between inbound fragments, coalescing cases with records behind the last act."),
    "exhaustive_scope": "36 ranges x 2 patterns x 5 fragment sizes x 3 payloads; all <=3-way partitions for payloads 0..24",
    "assumptions": ["scrypt cost lowered by the verif hook"],
    "units": [
        {"pkg": "mboxprop", "run": "TestC16HandshakeFragmentation", "kind": "plain", "timeout": (900, 3600)},
        {"pkg": "mboxprop", "run": "TestC16PartialEnum", "kind": "plain", "shards": (2, 8), "timeout": (900, 3600)},
        {"pkg": "mboxprop", "run": "TestC16PartialRapid", "checks": (2000, 40000), "shards": (1, 8), "timeout": (900, 3600)},
        {"pkg": "mboxprop", "run": "TestC16Duplex", "checks": (1000, 8000), "shards": (1, 8), "timeout": (900, 3600)},
        {"pkg": "mboxprop", "run": "TestC16Coalesce", "checks": (1500, 10000), "shards": (1, 8), "timeout": (900, 3600)},
        {"pkg": "mboxprop", "run": "TestC16ConnWriteResume", "checks": (300, 6000), "shards": (1, 8), "timeout": (900, 3600)},
    ],
}

CHECKS["C15"] = {
    "level": "exploration",
    "rule": ("rapid-generated write-size sequences (1-10 writes; 0, 1, 2, 17, ..300, ..5000, 32767/32768/32769, 65535; beyond 65535 up to 300 KiB on the TCP variant; 65536/70000 on the gRPC variant to test rejection) and read-buffer-size sequences "
             "(1, 2, 3, 7, 64, 1000, 32767, 32768, 32769, 65535, 65536, 70000, cycled) for NoiseGrpcConn (real Client/ServerHandshake over an in-memory ProxyConn), NoiseConn (hook constructor over an in-memory conn) and the plain mailbox conn "
             "(mailbox.NewClientConn/NewServerConn over gbn over the in-memory relay, virtual time), both directions, XX and KK. Oracle: every Read returns 0 <= n <= len(buf), never touches memory beyond the buffer, returns no error while the peer is open, "
             "and the concatenation read equals the concatenation written; Write returns len(b), nil, or (gRPC, > 65535) 0 and ErrMaxMessageLengthExceeded with nothing delivered. The mailbox variant runs on the first, second or third connection of a session (Refresh*Conn); a later connection that dies right after its handshake of what the previous one left in the relay streams is skipped (C10/C11). "
             "TestC15LengthSweep passes every write length 0..1100 and 2^k+-2 up to the record limit (140000 on the TCP variant) once through each connection type and direction, read back with a buffer cycle. TestC15Interleaved: two sessions of a kind (grpc / tcp) alive in one process, both directions each, everything written first, then the four readers advance one Read at a time in a drawn order (up to 40 scripted steps, then round-robin) with drawn buffer sizes, so that records are left half-read while other connections read; per stream the same oracle. "
             "TestC15GrpcReuse: ONE NoiseGrpcConn per party through 2-4 connections of a session (it is the credentials object; Client/ServerHandshake return it as the net.Conn): handshake over a fresh transport, 0-3 writes each way, readers that stop after 0-6 Reads (also in the middle of a record), transport closed, next connection; per connection and direction what is read is a prefix of what the peer wrote on that connection. "
             "TestC15Coalesce: see C16 (f): no byte written right behind the handshake is lost. "
             "Non-trivial: some read buffer was smaller than the largest write (interleaved: a record was left half-read while another connection read); distinct by case."),
    "assumptions": ["the mailbox variant is relative to the in-memory relay model"],
    "units": [
        {"pkg": "mboxprop", "run": "TestC15Grpc", "checks": (1500, 20000), "shards": (1, 4), "timeout": (900, 3600)},
        {"pkg": "mboxprop", "run": "TestC15TCP", "checks": (1500, 20000), "shards": (1, 4), "timeout": (900, 3600)},
        {"pkg": "mboxprop", "run": "TestC15Mailbox", "checks": (1200, 15000), "shards": (1, 8), "timeout": (900, 3600)},
        {"pkg": "mboxprop", "run": "TestC15Interleaved", "checks": (400, 4000), "shards": (1, 8), "timeout": (900, 3600)},
        {"pkg": "mboxprop", "run": "TestC15GrpcReuse", "checks": (600, 10000), "shards": (1, 4), "timeout": (900, 3600)},
        {"pkg": "mboxprop", "run": "TestC15Coalesce", "checks": (1500, 10000), "shards": (1, 8), "timeout": (900, 3600)},
        {"pkg": "mboxprop", "run": "TestC15LengthSweep", "kind": "plain", "timeout": (900, 3600)},
    ],
}

CHECKS["C05"] = {
    "level": "exploration",
    "rule": ("rapid-generated end-to-end runs in virtual time: mailbox.NewServerConn + NewClientConn over the in-memory relay (both cipher boxes pre-created), NoiseGrpcConn.ServerHandshake/ClientHandshake on top (XX, KK in 1/4), "
             "0-8 writes per direction of 1..65535 bytes (boundaries 32767/32768/32769/65535), in 1/12 more than 500 small writes in one direction (a third of those: in both directions at once), in 1/6 a burst of 30-90 small writes back to back in one direction with 5-20% of 60-200 relay messages lost (the GBN window of 20 wraps several times with losses at every position of the lap), with concurrent readers, relay latency 0..200ms, and a finite per-message drop/delay script on each relay stream armed after the GBN handshake (1/4) or after the Noise handshake (3/4). "
             "Oracles: bytes read on each side are a prefix of the bytes written on the other; 300 virtual seconds after the scripts are exhausted either both streams are complete or both sides have observed a Read/Write error; "
             "no CipherBox payload the relay ever saw contains the first or a middle 16-byte window of any written plaintext >= 16 bytes or of the auth payload; the client's AuthData equals the server's. "
             "A second, real-time family (TestC05RealTime, 32 conversations concurrently per batch) injects stream errors (the next 1-2 Send or Recv calls on a relay stream fail), relay outages (down/up) and, in a third of the cases, 9-20 s of silence (every message swallowed, longer than the 5s/7s+3s keepalive periods) at drawn moments during a paced transfer, in half of the cases on the second connection of the session (both ends closed and refreshed with RefreshClientConn / RefreshServerConn); same safety and confidentiality oracles, progress bound 90 real seconds after the relay is healthy again. Non-trivial: a relay fault was applied and a write >= 16 bytes was transferred; distinct by case."),
    "assumptions": ["relative to the in-memory model of the hashmail relay (harness/relay)", "stream errors (relay restarts) are exercised in real time by TestC05RealTime only"],
    "units": [
        {"pkg": "mboxprop", "run": "TestC05EndToEnd", "checks": (1200, 15000), "shards": (1, 16), "timeout": (900, 5400), "gomaxprocs": [16, 4, 2, 8]},
        {"pkg": "mboxprop", "run": "TestC05RealTime", "checks": (2, 10), "shards": (1, 4), "timeout": (1500, 7200), "shrink": (1, 1)},
    ],
}

CHECKS["C11"] = {
    "level": "exploration",
    "rule": ("model-based generated session histories over mailbox.Server (accept loop as a grpc server runs it) and mailbox.Client (Dial) on the in-memory relay, in REAL time (the mailbox conns sleep in their re-connect back-off under the mutex Close needs, "
             "which a synctest bubble cannot schedule), 40 sessions concurrently per batch: actions connect (with drawn Dial offset; optionally Dial issued while the previous connection is still open), transfer (echo of 1..40000 bytes), close_client, close_server, wait, "
             "intruder (a second client that only knows the passphrase), junk (between two connections one frame that is no GBN packet is queued towards the server: the accept attempt that reads it fails with a temporary error, the next one must work), relay_restart (the relay forgets every mailbox and queued message and breaks every stream, as a restarted hashmail server does; both sides give the connection up and the next connect must work), server max handshake version 0/1/2. Invariants: Accept / Dial never return while the connection previously handed out by the same object has an open Done(); "
             "after a close a working secured connection (echo succeeds) is re-established within 12 dial attempts; after a version-2 pairing both ConnData agree on a new SID different from the passphrase SID, hold each other's true key, "
             "the next connection uses the KK pattern on the key-derived stream ids; a version 0/1 pairing stores no key; the passphrase-only client never completes a handshake nor obtains the auth payload after the switch; in 2/5 of the sessions the first 1-2 DelCipherBox calls of the relay fail (they occur when the server tears down the passphrase mailboxes); "
             "the peer of a closed side notices within 30s. In half of the sessions the context given to Dial is cancelled as soon as Dial returns (dialer convention). "
             "Second unit (TestC11RawFresh): the connections handed out are used directly as net.Conns, 2-4 rounds per session, both sides write 0..300 bytes, the peer reads only part of them, one side closes, next round on the next connection; "
             "oracle: whatever is read on a connection is a prefix of what the peer wrote on that same connection (nothing of an earlier connection), plus the same exclusivity invariant. "
             "Non-trivial: the history contains at least one reconnect (raw unit: a reconnect after unread bytes were left behind); distinct by history."),
    "assumptions": ["relative to the in-memory relay model", "real-time bounds of 30-150 s per wait, >= 10x the mailbox's own constants (2s retry, 2s handshake, 5/7/3s keepalive)"],
    "units": [
        {"pkg": "mboxprop", "run": "TestC11Session", "checks": (1, 6), "shards": (1, 4), "timeout": (1500, 7200), "shrink": (1, 1)},
        {"pkg": "mboxprop", "run": "TestC11RawFresh", "checks": (3, 20), "shards": (1, 4), "timeout": (1500, 7200), "shrink": (1, 1)},
    ],
}
