# Table of checks: property id -> units (Go test functions) that decide it.
# Values given as (quick, thorough) pairs are selected by tier.

CHECKS = {}

CHECKS["C19"] = {
    "level": "fault_enumeration",
    "rule": ("GBN: every packet type x all 256 values of each one-byte field x both flags x 11 payload lengths (enumerated); "
             "every byte string of length 0..3 through Deserialize (enumerated, 16.8M); rapid-generated structured and raw longer strings; "
             "MsgData: 256 version bytes x 10 payload lengths up to 1 MiB, all byte strings <=2, header/body length grid; "
             "native go fuzzing in the thorough tier. Oracle: Deserialize(Serialize(v)) == v (nil == empty payload) and, for bytes b that deserialise, "
             "Deserialize(Serialize(Deserialize(b))) == Deserialize(b). Non-trivial: a value case, or a byte string the decoder accepts; distinct by content."),
    "exhaustive_scope": "all field values of every packet type for the listed payload lengths; all byte strings of length <= 3 (GBN) / <= 2 (MsgData)",
    "assumptions": ["nil and empty payloads are the same value"],
    "units": [
        {"pkg": "gbnprop", "run": "TestC19EnumValues", "kind": "plain"},
        {"pkg": "gbnprop", "run": "TestC19EnumBytes", "kind": "plain"},
        {"pkg": "gbnprop", "run": "TestC19Rapid", "checks": (20000, 300000), "shards": (1, 4)},
        {"pkg": "mboxprop", "run": "TestC19MsgDataEnum", "kind": "plain"},
        {"pkg": "mboxprop", "run": "TestC19MsgDataRapid", "checks": (20000, 300000), "shards": (1, 4)},
        {"pkg": "gbnprop", "run": "FuzzC19GBN", "kind": "fuzz", "fuzztime": (0, 60), "tiers": ("thorough",), "parallel": 8},
        {"pkg": "mboxprop", "run": "FuzzC19MsgData", "kind": "fuzz", "fuzztime": (0, 60), "tiers": ("thorough",), "parallel": 8},
    ],
}
