#!/bin/bash
# usage: seedproc.sh <Cxx> [other properties...] : verify the seeded change in /tmp/seed/<Cxx> (seedverify.sh), then run the
# quick tier of its property (and of the others named) against a patched scratch copy (altrun.sh). Result in /tmp/seed/<Cxx>.result
id=$1; shift
r=/tmp/seed/$id.result
{
  echo "=== verify $id"; /verif/seedverify.sh $id 2>&1 | tail -12
  for p in $id "$@"; do
    echo "=== check $p against $id"; t0=$(date +%s)
    /verif/altrun.sh /tmp/seed/$id.out/patch.diff $p quick 2>&1 | tail -4 | cut -c1-700
    echo "rc=$? $(( $(date +%s)-t0 ))s"
  done
} > $r 2>&1
echo done >> $r
