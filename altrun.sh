#!/bin/bash
# Development helper (not used by any registered command): runs a check against
# a modified scratch copy of /repo without touching /repo or /verif, so it is
# safe while a background run is using /repo.
#   altrun.sh <patch.diff | revert:<commit> | none> <Cxx> [tier] [check args...]
set -u
mod="$1"; prop="$2"; tier="${3:-quick}"; shift; shift; shift || true
here="$(cd "$(dirname "$0")" && pwd)"
d="$(mktemp -d /tmp/alt.XXXXXX)"
[ -n "${ALT_KEEP:-}" ] && echo "keeping $d" || trap 'git -C /repo worktree remove --force "$d/repo" >/dev/null 2>&1; rm -rf "$d"' EXIT
git -C /repo worktree add -q --detach "$d/repo" HEAD || exit 2
case "$mod" in
  none) ;;
  revert:*) git -C "$d/repo" revert --no-commit "${mod#revert:}" >/dev/null || { echo "revert failed"; exit 2; } ;;
  *) git -C "$d/repo" apply "$mod" || { echo "apply failed"; exit 2; } ;;
esac
rsync -a --exclude .git --exclude .build --exclude .run --exclude replays --exclude seeded "$here/" "$d/verif/"
sed -i "s#=> /repo/#=> $d/repo/#" "$d/verif/harness/go.mod"
cd "$d/verif" && VERIF_TIER="$tier" ./check "$prop" --tier "$tier" "$@" 2>&1 | grep -v '^KNOWN-FINDING' | cut -c1-400
rc=${PIPESTATUS[0]}
mkdir -p "$here/replays/alt"; cp -f "$d"/verif/replays/*.json "$here/replays/alt/" 2>/dev/null
exit $rc
