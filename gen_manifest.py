#!/usr/bin/env python3
"""Generates MANIFEST.json from checks_table.py and manifest_meta.py."""
import json, os, sys
ROOT = os.path.dirname(os.path.abspath(__file__))
sys.path.insert(0, ROOT)
from checks_table import CHECKS
from manifest_meta import META, HOOK_COMMITS, NOT_APPLICABLE, NOTES

checks = []
for pid in sorted(CHECKS):
    m = META[pid]
    checks.append({
        "property_id": pid,
        "quick_cmd": "./check %s --tier quick" % pid,
        "thorough_cmd": "./check %s --tier thorough" % pid,
        "evidence_file": "/verif/evidence/%s.json" % pid,
        "replay_cmd_template": "./check %s --replay {path}" % pid,
        "engine": m.get("engine", "harness"),
        "level_claimed": {"category": CHECKS[pid]["level"], "text": m["text"], "design_ref": m["design_ref"]},
        "level_note": m["note"],
        "technique": m["technique"],
    })
man = {
    "version": 1,
    "setup_cmd": "./setup.sh",
    "hooks": {
        "guard": "verif",
        "enable": "go1.26.8 test -tags verif (harness module /verif/harness replaces the three repo modules by path)",
        "baseline_off_cmd": "for m in gbn mailbox; do (cd /repo/$m && go test -mod=mod -vet=off -count=1 -timeout 25m ./...) || exit 1; done",
        "source_commits": HOOK_COMMITS,
        "add_only": True,
    },
    "engines": [
        {"name": "harness", "path": "/verif/harness", "serves_properties": sorted(CHECKS),
         "kind_free_text": "Go test module: pgregory.net/rapid generators + exhaustive small-scope enumerators + native go fuzz targets, virtual time via testing/synctest; driver /verif/check"},
    ],
    "checks": checks,
    "not_applicable": NOT_APPLICABLE,
    "notes": NOTES,
}
with open(os.path.join(ROOT, "MANIFEST.json"), "w") as f:
    json.dump(man, f, indent=1)
    f.write("\n")
print("wrote MANIFEST.json with %d checks, %d not_applicable" % (len(checks), len(NOT_APPLICABLE)))
