#!/usr/bin/env python3
"""Regenerates seeded/INDEX.md from the meta.json files."""
import json, os
rows = []
for d in sorted(os.listdir("/verif/seeded")):
    p = "/verif/seeded/%s/meta.json" % d
    if not os.path.exists(p):
        continue
    m = json.load(open(p))
    cell = lambda s, n: str(s).replace("|", "/").replace("\n", " ")[:n]
    rows.append("| %s | %s | %s | %s |" % (d, m.get("property", ""), cell(m.get("needs", ""), 160), cell(m.get("checks_result", ""), 240)))
head = """# Seeded changes (each confirmed: pinned suites pass with it, demo fails with it / passes without it)

Apply with `git -C /repo apply seeded/<name>/patch.diff`, run `./check <property>`, undo with `git -C /repo checkout -- .` (or `./seedrun.sh seeded/<name>/patch.diff <property>`); without touching /repo: `./altrun.sh /verif/seeded/<name>/patch.diff <property>`.

| name | property | needs | result |
|---|---|---|---|
"""
open("/verif/seeded/INDEX.md", "w").write(head + "\n".join(rows) + "\n")
print(len(rows), "seeded changes")
