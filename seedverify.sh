#!/bin/bash
# usage: seedverify.sh <Cxx> : confirms a seeded change in its scratch worktree /tmp/seed/<Cxx>:
#  existing suites pass with the change, the demo fails with it and passes without it.
id=$1; wt=/tmp/seed/$id; out=/tmp/seed/$id.out
export GOFLAGS=-mod=mod GOPROXY=off GOSUMDB=off GOTOOLCHAIN=local; go() { go1.26.8 "$@"; }
cd $wt || exit 2
demo=$(git status --porcelain | grep '^??' | grep _test.go | awk '{print $2}' | head -1)
[ -z "$demo" ] && { echo "no demo test in worktree"; exit 2; }
mod=$(dirname $demo)
# make sure exactly the delivered change is applied (the worktrees share one stash; agents have mixed them up)
git checkout -- . && git apply $out/patch.diff || { echo "patch.diff does not apply to HEAD"; exit 2; }
names=$(grep -ho "^func Test[A-Za-z0-9_]*" $demo | sed 's/func //' | paste -sd'|')
echo "demo=$demo tests=$names"
mv $demo /tmp/seed/$id.demo.go.bak
( cd gbn && go test -count=1 ./... 2>&1 | tail -1 ); ( cd mailbox && go test -count=1 ./... 2>&1 | tail -1 )
cp /tmp/seed/$id.demo.go.bak $demo
echo "--- demo WITH change:"; ( cd $mod && go test -count=1 -run "^($names)\$" . 2>&1 | tail -3 )
git apply -R $out/patch.diff
echo "--- demo WITHOUT change:"; ( cd $mod && go test -count=1 -run "^($names)\$" . 2>&1 | tail -2 )
git apply $out/patch.diff
rm -f /tmp/seed/$id.demo.go.bak
