#!/bin/sh
# Offline setup: pre-builds the harness test binaries (warms the Go build cache).
set -e
cd "$(dirname "$0")/harness"
export GOFLAGS=-mod=mod GOPROXY=off GOSUMDB=off GOTOOLCHAIN=local
mkdir -p ../.build
for p in gbnprop mboxprop; do
  if [ -d "$p" ]; then
    go1.26.8 test -c -tags verif -o ../.build/$p.test ./$p
  fi
done
echo setup ok
