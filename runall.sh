#!/bin/bash
# runs every registered check (quick tier by default) on the current /repo tree and prints a summary
tier=${1:-quick}
cd "$(dirname "$0")"
git -C /repo status --porcelain --untracked-files=no | grep -q . && { echo "WARNING: /repo has uncommitted changes"; }
for p in $(python3 -c "import sys; sys.path.insert(0,'.'); from checks_table import CHECKS; print(' '.join(sorted(CHECKS)))"); do
  t0=$(date +%s)
  out=$(./check $p --tier $tier 2>&1); rc=$?
  echo "$p rc=$rc $(( $(date +%s)-t0 ))s :: $(echo "$out" | grep -v '^KNOWN-FINDING' | tail -1 | cut -c1-160)"
  [ $rc -ne 0 ] && echo "$out" | grep -E "VIOLATION|INCONCLUSIVE" | head -5
done
