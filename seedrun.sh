#!/bin/bash
# usage: seedrun.sh <patch.diff> <prop> [tier]  -- applies a seeded change to /repo, runs the check, restores /repo
set -u
patch=$1; prop=$2; tier=${3:-quick}
cd /repo || exit 2
if [ -n "$(git status --porcelain --untracked-files=no)" ]; then echo "repo dirty"; exit 2; fi
git apply "$patch" || { echo "patch does not apply"; exit 2; }
cd /verif && timeout 3000 ./check $prop --tier $tier 2>&1 | cut -c1-400 | tail -6
rc=${PIPESTATUS[0]}
cd /repo && git checkout -- . && git status --porcelain --untracked-files=no
echo "check rc=$rc"
