HOOK_COMMITS = ["5213780"]

NOTES = ("All checks are property-based tests / fuzzers (rapid v1.3.0, exhaustive small-scope enumeration, go native fuzzing) run by ./check. "
         "VERIF_SEED selects the rapid PRNG seed (0 is remapped). Exit 2 = inconclusive (never a violation). "
         "known_findings.json lists repaired (fixed) and recorded (known) defects.")

ALL = ["C%02d" % i for i in range(1, 21)]

VT = "Scenarios run in virtual time (testing/synctest), so thousands of fault schedules per minute are explored; goroutine interleavings are sampled, not enumerated."
TB = "Trusts the Go 1.26.8 runtime and testing/synctest, rapid v1.3.0, and the harness's small reference models (see DESIGN.md section 7)."

META = {
 "C01": {"text": "Generated fault schedules (drop/dup/delay per packet, both directions, all window sizes) against the prefix oracle. " + VT + " Absence of violations is evidence, not proof.",
         "design_ref": "DESIGN.md 5/C01", "note": TB + " Transport model: order-preserving lossy FIFO (vnet.Link).",
         "technique": "property-based testing (rapid) of generated fault schedules in virtual time, prefix oracle"},
 "C02": {"text": "Exhaustive single-bit flips of whole records plus rapid-generated multi-edit scripts over the captured ciphertext of XX and KK sessions, through Machine, NoiseGrpcConn and NoiseConn, against the prefix oracle.",
         "design_ref": "DESIGN.md 5/C02", "note": TB + " Scrypt cost lowered by the verif hook exactly as the repo's rpctest tag does.",
         "technique": "exhaustive bit-flip fault enumeration + rapid edit scripts, prefix oracle"},
 "C03": {"text": "rapid-generated matching / one-bit-different / random passphrases and right/wrong stored keys; oracle: both succeed iff secrets match, responder writes zero bytes on mismatch, payload never on the wire.",
         "design_ref": "DESIGN.md 5/C03", "note": TB, "technique": "property-based testing (rapid), iff-oracle over recorded transcripts"},
 "C04": {"text": "All 81 version-range combinations x both patterns exhaustively, all version-byte substitutions across acts, all single-bit flips of a handshake, random rewrites, payload size boundaries; oracle: if both complete, every agreed item matches.",
         "design_ref": "DESIGN.md 5/C04", "note": TB, "technique": "exhaustive configuration + MITM-rewrite enumeration, agreement oracle"},
 "C05": {"text": "Generated write-size sequences through mailbox conns + Noise over an in-memory relay with generated per-message drop/delay faults (virtual time) and stream failures (real time); prefix, bounded-progress and ciphertext-only oracles.",
         "design_ref": "DESIGN.md 5/C05", "note": TB + " Relative to the in-memory model of the hashmail relay.", "technique": "property-based testing (rapid) with fault injection at an in-memory relay"},
 "C06": {"text": "Generated finite fault prefixes followed by a reliable link; bounded-liveness oracle on delivery gaps derived from the endpoints' own timeouts (hook), no-closure oracle without keepalive, quiescence oracle. " + VT,
         "design_ref": "DESIGN.md 5/C06", "note": TB + " Liveness is checked as bounded liveness in virtual time.", "technique": "property-based testing (rapid) in virtual time, bounded-progress oracle"},
 "C07": {"text": "Exhaustive byte strings up to 3 bytes (4 in thorough) through the decoders, all 256 SYN N values against a live server, all 256 ACK/NACK values against reachable window states, mutated Noise acts, random/fuzzed longer inputs; oracle: error or ignore, never panic, window invariants hold.",
         "design_ref": "DESIGN.md 5/C07", "note": TB, "technique": "exhaustive small-input enumeration + rapid + go native fuzzing, crash/invariant oracle"},
 "C08": {"text": "Generated interleavings of two directions over thousands of records (several key rotations) with equal and distinct plaintexts; oracles: exact decryption, pairwise-distinct ciphertexts of equal plaintexts, fresh (key,nonce) via hook, no plaintext window on the wire.",
         "design_ref": "DESIGN.md 5/C08", "note": TB, "technique": "property-based testing (rapid), round-trip + distinctness oracle"},
 "C09": {"text": "Exhaustive (base,size,value) enumeration of the send-queue bookkeeping for small sequence spaces against an unbounded-integer reference, plus generated virtual-time scenarios with a sound wire-level outstanding-packet monitor and a blocking-behaviour timing oracle.",
         "design_ref": "DESIGN.md 5/C09", "note": TB + " The queue is reached through the verif hook wrapper.", "technique": "exhaustive small-scope enumeration + rapid scenarios, reference-model and invariant oracles"},
 "C10": {"text": "Generated drop/dup/delay over handshake packets, stale packets of every type queued beforehand, all client N, drawn start offsets, retry loops on both sides; safety oracle (server n is a delivered SYN value != 255, paired ends agree) and bounded convergence oracle. " + VT,
         "design_ref": "DESIGN.md 5/C10", "note": TB, "technique": "property-based testing (rapid) in virtual time"},
 "C11": {"text": "Model-based generated histories (connect/transfer/close/relay failure/second client) over Server.Accept and Client.Dial on an in-memory relay; invariants after every step; second unit: the handed-out connections used as plain net.Conns with partial reads across reconnects (prefix-of-this-connection oracle). Real time: a report counts only if the session shows it again when re-run alone (DESIGN 8.3).",
         "design_ref": "DESIGN.md 5/C11", "note": TB + " Relative to the in-memory relay model.", "technique": "stateful property-based testing (rapid action lists)"},
 "C12": {"text": "Generated close events (who/when/how often/transport condition) over running scenarios; oracles: bounded Close, blocked calls fail, peer told by FIN, and a goroutine-leak detector based on the synctest bubble. " + VT,
         "design_ref": "DESIGN.md 5/C12", "note": TB + " Timers without a goroutine are not observable.", "technique": "property-based testing (rapid) in virtual time with leak detection"},
 "C13": {"text": "Generated keepalive settings and silence moments across send-loop situations (idle, mid-burst, window full); bounded detection oracle and never-close-a-live-peer oracle over long idle periods. " + VT,
         "design_ref": "DESIGN.md 5/C13", "note": TB, "technique": "property-based testing (rapid) in virtual time, bounded-time oracle"},
 "C14": {"text": "Exhaustive lengths x chunk sizes for small scopes plus generated message sequences with faults and with send/receive deadlines expiring inside messages; equality-of-message-lists oracle.",
         "design_ref": "DESIGN.md 5/C14", "note": TB, "technique": "exhaustive small-scope enumeration + rapid, list-equality oracle"},
 "C15": {"text": "Generated write-size and read-buffer-size sequences over NoiseGrpcConn, NoiseConn and the plain mailbox conn; oracle: n <= len(buf), no spurious error, concatenation equality, oversize writes rejected or chunked.",
         "design_ref": "DESIGN.md 5/C15", "note": TB, "technique": "property-based testing (rapid), stream-equality oracle"},
 "C16": {"text": "Differential: every clean handshake configuration over a message-preserving pipe vs a fragmenting reader; all 2-/3-way partitions of a record's wire bytes into partial writes for payloads 0..24, random finer ones; NoiseConn.Write over a transport that times out, resumed as documented.",
         "design_ref": "DESIGN.md 5/C16", "note": TB, "technique": "differential testing + exhaustive partition enumeration"},
 "C17": {"text": "Generated entropies/phrases/keys; round-trip and equality oracles for the mnemonic codec and SID derivation, stream-direction agreement observed at the in-memory relay.",
         "design_ref": "DESIGN.md 5/C17", "note": TB, "technique": "property-based testing (rapid), round-trip and agreement oracles"},
 "C18": {"text": "Race-detector runs of generated scenarios whose timers and packet arrivals coincide in virtual time, with extra API goroutines, plus generated call-mix stress of the ticker and timeout manager and transport failures while start() launches the connection's goroutines; the weakest claim of the set: only interleavings that ran are checked.",
         "design_ref": "DESIGN.md 5/C18", "note": TB + " Trusts the Go race detector.", "technique": "property-based schedule generation under the Go race detector"},
 "C19": {"text": "Exhaustive enumeration of every one-byte field value of every GBN packet type and every byte string of length <= 3 through Deserialize, plus random/fuzzed longer inputs, against the round-trip oracle; complete for the enumerated sub-domain, sampled beyond it.",
         "design_ref": "DESIGN.md 5/C19", "note": "Trusts Go runtime and the harness's value comparison (nil payload == empty payload).",
         "technique": "exhaustive small-scope enumeration + rapid property-based testing + go native fuzzing (round-trip oracle)"},
 "C20": {"text": "Model-based generated histories of Sent/Received/clock-advance events on a TimeoutManager in virtual time; the statement's clauses are evaluated after every event against harness-side bookkeeping.",
         "design_ref": "DESIGN.md 5/C20", "note": TB, "technique": "stateful property-based testing (rapid) against a reference model"},
}

def not_applicable():
    from checks_table import CHECKS
    return [{"property_id": p, "reason": "check not built yet in this revision of /verif (work in progress; will be claimed when its harness lands)"}
            for p in ALL if p not in CHECKS]

NOT_APPLICABLE = not_applicable()
