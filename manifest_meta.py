HOOK_COMMITS = ["5213780"]

NOTES = ("All checks are property-based tests / fuzzers (rapid v1.3.0, exhaustive small-scope enumeration, go native fuzzing) run by ./check. "
         "VERIF_SEED selects the rapid PRNG seed (0 is remapped). Exit 2 = inconclusive (never a violation). "
         "known_findings.json lists repaired (fixed) and recorded (known) defects.")

ALL = ["C%02d" % i for i in range(1, 21)]

META = {
 "C19": {
  "text": "Exhaustive enumeration of every one-byte field value of every GBN packet type and every byte string of length <= 3 through Deserialize, "
          "plus random/fuzzed longer inputs, against the round-trip oracle; complete for the enumerated sub-domain, sampled beyond it.",
  "design_ref": "DESIGN.md 5/C19",
  "note": "Trusts Go runtime and the harness's value comparison (nil payload == empty payload).",
  "technique": "exhaustive small-scope enumeration + rapid property-based testing + go native fuzzing (round-trip oracle)",
 },
}

def not_applicable():
    from checks_table import CHECKS
    return [{"property_id": p, "reason": "check not built yet in this revision of /verif (work in progress; will be claimed when its harness lands)"}
            for p in ALL if p not in CHECKS]

NOT_APPLICABLE = not_applicable()
