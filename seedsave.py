#!/usr/bin/env python3
"""seedsave.py <Cxx> <name> <caught_by|MISSED> [note]  -- archives a confirmed seeded change under /verif/seeded/<name>/"""
import json, os, shutil, sys, glob
pid, name, caught = sys.argv[1], sys.argv[2], sys.argv[3]
note = sys.argv[4] if len(sys.argv) > 4 else ""
src = "/tmp/seed/%s.out" % pid
dst = "/verif/seeded/%s" % name
os.makedirs(dst, exist_ok=True)
for f in glob.glob(src + "/*"):
    shutil.copy(f, dst)
# demo tests must not be picked up by `go test` anywhere: rename
for f in glob.glob(dst + "/*_test.go"):
    os.rename(f, f + ".txt")
m = {}
try:
    m = json.load(open(dst + "/meta.json"))
except Exception:
    pass
m["property"] = pid
m["confirmed_by_me"] = ("in scratch worktree /tmp/seed/%s: gbn and mailbox suites pass with the change; demo test fails with the change and passes with the change reverted "
                        "(seedverify.sh, go1.26.8, GOTOOLCHAIN=local)" % pid)
m["checks_result"] = caught
if note:
    m["note"] = note
json.dump(m, open(dst + "/meta.json", "w"), indent=1)
print("saved", dst)
